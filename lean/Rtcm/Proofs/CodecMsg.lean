import Rtcm.Proofs.FragLaw
import Rtcm.Proofs.BuildShape
import Rtcm.Props.C12
/-!
# From the fragment law to frames

`normal_form_of_law`: if the layout of the row obeys the codec law (`CodecLaw.Law`) and its decoder is
local (`DecLocal.Local`), then a frame built by a fresh builder passes the frame check, decodes to a
message of the same number with some tokens `nt`, and building `nt` again returns the same frame,
byte for byte.
-/
namespace Rtcm.CodecMsg
open Rtcm.Message Rtcm.Schema Rtcm.Interp Rtcm.WF Rtcm.CodecLaw Rtcm.DecLocal Rtcm.BuildShape Rtcm.Bits
open Rtcm.CurLaws (AgreeOn)

theorem map_toNat_ofNat (P : List Nat) (hP : ∀ x ∈ P, x < 256) :
    (P.map UInt8.ofNat).map (·.toNat) = P := by
  rw [List.map_map]
  conv => rhs; rw [← List.map_id P]
  apply List.map_congr_left
  intro x hx
  have := hP x hx
  simp only [Function.comp, UInt8.toNat_ofNat', id]
  omega

theorem agree_take (D : List Nat) (L lo hi : Nat) (h : hi ≤ 8 * L) : AgreeOn (D.take L) D lo hi := by
  intro g _ hg
  unfold bitAt
  simp only [List.getD_eq_getElem?_getD, List.getElem?_take]
  rw [if_pos (by omega)]

set_option linter.unusedVariables false in
/-- what `frameNew` and `decodeFrame` do with a built frame, given what the fragment decoder does on
the encoder's buffer -/
theorem decode_built (cfg : Cfg) (tbl : List MsgRow) (n : Nat) (row : MsgRow) (c : Cur) (nt : List Tok)
    (hrow : findRow tbl n = some row) (hn : n < 4096)
    (hg : ∀ d ∈ c.data, d < 256) (hlen : c.data.length = 1023) (hlo : 12 ≤ c.off) (hhi : c.off ≤ 8184)
    (hnum : (c.data.getD 0 0 <<< 4) ||| (c.data.getD 1 0 >>> 4) = n)
    (hloc : Local (decFrag cfg row.frag)) (c'' : Cur) (hstop : c''.off ≤ c.off)
    (hdec : decFrag cfg row.frag ⟨c.data, 12⟩ = .ok (nt, c'')) :
    ∃ f, frameNew ((C09.frameOf (payLen c) (c.data.take (payLen c))).map UInt8.ofNat) = .ok f ∧
      decodeFrame cfg tbl f = .ok (.typed n nt) := by
  have hL2 : 2 ≤ payLen c := by unfold payLen; omega
  have hL : payLen c ≤ 1023 := by unfold payLen; omega
  have hLd : payLen c ≤ c.data.length := by omega
  have hPl : (c.data.take (payLen c)).length = payLen c := by rw [List.length_take]; omega
  have hPb : ∀ x ∈ c.data.take (payLen c), x < 256 := fun x hx => hg x (List.mem_of_mem_take hx)
  obtain ⟨_, _, _, _, s5⟩ := C09.frameOf_spec (payLen c) (c.data.take (payLen c)) hPl hL2 hL
  have hpl : ((c.data.take (payLen c)).map UInt8.ofNat).length = payLen c := by
    rw [List.length_map, hPl]
  have hf := frameNew_mkFrame 0 ((c.data.take (payLen c)).map UInt8.ofNat) [] (by omega)
  rw [List.append_nil] at hf
  refine ⟨_, by rw [s5]; exact hf, ?_⟩
  have hnumber : (mkFrameResult 0 ((c.data.take (payLen c)).map UInt8.ofNat)).number = some n := by
    show (if 2 ≤ ((c.data.take (payLen c)).map UInt8.ofNat).length then _ else none : Option Nat) = some n
    rw [if_pos (by omega), C09.byteAt_map_ofNat _ 0 (by omega) hPb, C09.byteAt_map_ofNat _ 1 (by omega) hPb]
    have g0 : ∀ j, j < 2 → (c.data.take (payLen c)).getD j 0 = c.data.getD j 0 := by
      intro j hj
      simp only [List.getD_eq_getElem?_getD, List.getElem?_take]
      rw [if_pos (by omega)]
    rw [g0 0 (by omega), g0 1 (by omega), hnum]
  unfold decodeFrame
  rw [hnumber]
  simp only [hrow]
  have hdata : (mkFrameResult 0 ((c.data.take (payLen c)).map UInt8.ofNat)).data.map (·.toNat)
      = c.data.take (payLen c) := map_toNat_ofNat _ hPb
  rw [hdata]
  obtain ⟨_, _, loc⟩ := hloc c.data 12 nt c'' hdec
  have := loc (c.data.take (payLen c)) hg hPb (by rw [hPl]; unfold payLen; omega)
    (agree_take c.data (payLen c) 12 c''.off (by unfold payLen; omega))
  rw [this]

/-- the number bits survive the body encoder -/
theorem number_survives (cfg : Cfg) (n : Nat) (hn : n < 4096) (w1 : List Nat) (c : Cur)
    (hput : Bits.put cfg ⟨.u, 16⟩ window0 0 n 12 = .ok (w1, 12))
    (hE : NoPanic.Ext { data := w1, off := 12 } c) :
    (c.data.getD 0 0 <<< 4) ||| (c.data.getD 1 0 >>> 4) = n := by
  have gl : ∀ j, c.data.getD j 0 < 256 := by
    intro j
    rw [List.getD_eq_getElem?_getD]
    cases hj : c.data[j]? with
    | none => simp
    | some x => simpa using hE.good x (List.mem_of_getElem? hj)
  apply C09.number_of_bits n hn c.data (gl 0) (gl 1)
  intro g hg
  have k := hE.keep g hg
  simp only at k
  rw [k, C07.put_bits cfg ⟨.u, 16⟩ _ 0 n 12 (by decide) (by decide) (by decide) (by decide)
    window0_good (by rw [window0_length]; omega) (show n < 2 ^ 16 by omega) w1 12 hput g]
  rw [if_pos ⟨Nat.zero_le _, by omega⟩]
  unfold Bits.wireBit Bits.wireValue
  simp

/-- the core of C01 for one table row whose layout obeys the law -/
theorem normal_form_of_law (cfg : Cfg) (tbl : List MsgRow) (htbl : ∀ row ∈ tbl, WFFrag row.frag = true)
    (glo : SigTable) (n : Nat) (hn : n < 4096) (toks : List Tok) (fr : List Nat) (row : MsgRow)
    (hrow : findRow tbl n = some row)
    (hlaw : Law (encFrag cfg glo row.frag) (decFrag cfg row.frag))
    (hloc : Local (decFrag cfg row.frag)) (hok : TokOK toks)
    (h : (Builder.new.build cfg tbl glo (.typed n toks)).2 = .ok fr) :
    ∃ f nt, frameNew (fr.map UInt8.ofNat) = .ok f ∧ decodeFrame cfg tbl f = .ok (.typed n nt) ∧
      (Builder.new.build cfg tbl glo (.typed n nt)).2 = .ok fr := by
  obtain ⟨row', w1, c, hrow', hgood, hwl, hput, henc, hE, hhi, rfl⟩ :=
    build_new_shape cfg tbl htbl glo n toks fr h
  rw [hrow] at hrow'
  injection hrow' with hrow'
  subst hrow'
  obtain ⟨_, _, nt, hdec, hre, _⟩ := hlaw toks ⟨w1, 12⟩ c [] hgood (by show 12 ≤ 8 * w1.length; omega) hok henc
  have hcl : c.data.length = 1023 := by have := hE.len; simp only at this; rw [this, hwl]
  obtain ⟨f, hf, hd⟩ := decode_built cfg tbl n row c nt hrow hn hE.good hcl hE.mono hhi
    (number_survives cfg n hn w1 c hput hE) hloc c (Nat.le_refl _) hdec
  refine ⟨f, nt, hf, hd, ?_⟩
  have := hre []
  rw [List.append_nil] at this
  exact build_new_eq cfg tbl glo n nt row w1 c hrow hput this hcl hhi

/-- a message value that some decode produced is a fixed point of encode-then-decode -/
theorem fixpoint_of_law (cfg : Cfg) (tbl : List MsgRow) (htbl : ∀ row ∈ tbl, WFFrag row.frag = true)
    (glo : SigTable) (n : Nat) (hn : n < 4096) (toks : List Tok) (fr : List Nat) (row : MsgRow)
    (hrow : findRow tbl n = some row)
    (hlaw : Law (encFrag cfg glo row.frag) (decFrag cfg row.frag))
    (hloc : Local (decFrag cfg row.frag)) (hok : TokOK toks)
    (hdec0 : ∃ c0 c0', decFrag cfg row.frag c0 = .ok (toks, c0'))
    (h : (Builder.new.build cfg tbl glo (.typed n toks)).2 = .ok fr) :
    ∃ f, frameNew (fr.map UInt8.ofNat) = .ok f ∧ decodeFrame cfg tbl f = .ok (.typed n toks) := by
  obtain ⟨row', w1, c, hrow', hgood, hwl, hput, henc, hE, hhi, rfl⟩ :=
    build_new_shape cfg tbl htbl glo n toks fr h
  rw [hrow] at hrow'
  injection hrow' with hrow'
  subst hrow'
  obtain ⟨_, _, nt, hdec, _, hfix⟩ := hlaw toks ⟨w1, 12⟩ c [] hgood (by show 12 ≤ 8 * w1.length; omega) hok henc
  obtain ⟨c0, c0', h0⟩ := hdec0
  obtain ⟨rfl, _⟩ := hfix c0 toks c0' [] h0 (List.append_nil _).symm
  have hcl : c.data.length = 1023 := by have := hE.len; simp only at this; rw [this, hwl]
  exact decode_built cfg tbl n row c nt hrow hn hE.good hcl hE.mono hhi
    (number_survives cfg n hn w1 c hput hE) hloc c (Nat.le_refl _) hdec

/-- what a successful typed decode of a frame means -/
theorem decodeFrame_typed {cfg : Cfg} {tbl : List MsgRow} {f : Frame} {n : Nat} {toks : List Tok}
    (h : decodeFrame cfg tbl f = .ok (.typed n toks)) :
    ∃ row c', findRow tbl n = some row ∧
      decFrag cfg row.frag { data := f.data.map (·.toNat), off := 12 } = .ok (toks, c') := by
  unfold decodeFrame at h
  split at h
  · cases h
  · next k _ =>
    split at h
    · cases h
    · next row hrow =>
      split at h
      · next t c' e =>
        injection h with h
        injection h with h1 h2
        subst h1; subst h2
        exact ⟨row, c', hrow, e⟩
      · cases h
      · cases h

end Rtcm.CodecMsg
