import Rtcm.Proofs.Float
import Rtcm.Proofs.FloatBits
import Rtcm.Proofs.FloatMono
import Rtcm.Proofs.DfWf
import Mathlib.Tactic.Linarith
import Mathlib.Tactic.NormNum
import Mathlib.Tactic.Positivity
import Mathlib.Tactic.FieldSimp
import Mathlib.Tactic.Ring
/-!
# Laws of the `df!` model: integer fields, `inv` handling, float fields (error-bound argument)
-/
namespace Rtcm.DfLaws
open Rtcm.Bits Rtcm.Schema Rtcm.SoftFloat Rtcm.Df Rtcm.DfWf

/-! ### integer `dt` -/

theorem wrapDT_eq (dt : DT) (z : Int) (h1 : (dtRange dt).1 ≤ z) (h2 : z ≤ (dtRange dt).2) :
    wrapDT dt z = z := by
  cases dt <;>
    simp [wrapDT, dtRange, DT.intInfo, Bits.ofInt, Bits.toInt] at h1 h2 ⊢ <;> omega

theorem arithDT_ok (cfg : Cfg) (dt : DT) (e : Int) (what : String)
    (h1 : (dtRange dt).1 ≤ e) (h2 : e ≤ (dtRange dt).2) : arithDT cfg dt e what = .ok e := by
  unfold arithDT
  rcases hd : dtRange dt with ⟨lo, hi⟩
  rw [hd] at h1 h2
  simp only at h1 h2 ⊢
  rw [if_pos ⟨h1, h2⟩]

theorem int_roundtrip (cfg : Cfg) (s : DfSpec) (sv : Int) (hf : s.dt.isFloat = false)
    (hw : wfInt s = true) (hr : InRange s sv) :
    ∃ t, dequantise cfg s sv = .ok t ∧ quantise s t = .ok (Bits.ofInt s.it.w sv) := by
  unfold wfInt at hw
  simp only [Bool.and_eq_true, decide_eq_true_eq, Bool.or_eq_true] at hw
  obtain ⟨⟨⟨⟨⟨⟨⟨⟨hr0, hlo⟩, hhi⟩, hlor⟩, hhir⟩, hlob⟩, hhib⟩, hbias⟩, -⟩ := hw
  obtain ⟨hsl, hsh⟩ := hr
  have hwrap : wrapDT s.dt sv = sv := wrapDT_eq _ _ (le_trans hlo hsl) (le_trans hsh hhi)
  have hm1 : svLo s * optI s.res 1 ≤ sv * optI s.res 1 :=
    Int.mul_le_mul_of_nonneg_right hsl hr0.le
  have hm2 : sv * optI s.res 1 ≤ svHi s * optI s.res 1 :=
    Int.mul_le_mul_of_nonneg_right hsh hr0.le
  unfold dequantise quantise
  simp only [hf, Bool.false_eq_true, if_false, hwrap]
  rcases hres : s.res with _ | re <;> rcases hb : s.bias with _ | be <;>
    simp only [hres, hb, optI, Option.isNone_none, Option.isNone_some, Bool.false_eq_true,
      false_or, mul_one, add_zero] at hr0 hm1 hm2 hlob hhib hbias hlor hhir ⊢
  · exact ⟨_, rfl, rfl⟩
  · have h0 : 0 ≤ sv := le_trans hbias hsl
    rw [arithDT_ok cfg _ _ _ (by omega) (by omega)]
    refine ⟨_, rfl, ?_⟩
    have hge : sv + evalI be ≥ evalI be := by omega
    have e1 : sv + evalI be - evalI be = sv := by omega
    simp only [hge, if_true, e1]
    rcases hd : dtRange s.dt with ⟨lo, hi⟩
    rw [hd] at hlo hhi
    simp only at hlo hhi ⊢
    rw [if_pos ⟨by omega, by omega⟩]
  · rw [arithDT_ok cfg _ _ _ (by omega) (by omega)]
    refine ⟨_, rfl, ?_⟩
    simp only
    rw [Int.mul_tdiv_cancel _ hr0.ne']
  · have h0 : 0 ≤ sv := le_trans hbias hsl
    rw [arithDT_ok cfg _ _ _ (by omega) (by omega)]
    simp only
    rw [arithDT_ok cfg _ _ _ (by omega) (by omega)]
    refine ⟨_, rfl, ?_⟩
    have hge : sv * evalI re + evalI be ≥ evalI be := by
      have : 0 ≤ sv * evalI re := Int.mul_nonneg h0 hr0.le
      omega
    have e1 : sv * evalI re + evalI be - evalI be = sv * evalI re := by omega
    simp only [hge, if_true, e1]
    rcases hd : dtRange s.dt with ⟨lo, hi⟩
    rw [hd] at hlor hhir
    simp only at hlor hhir ⊢
    rw [if_pos ⟨by omega, by omega⟩]
    simp only
    rw [Int.mul_tdiv_cancel _ hr0.ne']

/-! ### `inv` handling: directly from the definitions of `Df.decode` / `Df.encode` -/

/-- what `Df.encode` does once the carrier pattern is known: `len` bits through `Bits.put` -/
def putPat (cfg : Cfg) (s : DfSpec) (c : Cur) (p : Nat) (rest : List Tok) : Res (Cur × List Tok) :=
  match Bits.put cfg s.it c.data c.off p s.len with
  | .ok (d, o) => .ok ({ data := d, off := o }, rest)
  | .err e => .err e
  | .panic w => .panic w

theorem decode_tokens (cfg : Cfg) (s : DfSpec) (c : Cur) (p o : Nat) (t : Tok)
    (hp : Bits.parse cfg s.it c.data c.off s.len = .ok (p, o))
    (ht : dequantise cfg s (carrierVal s.it p) = .ok t) :
    Df.decode cfg s c = .ok
      ((match s.inv with
        | some inv => if carrierVal s.it p = inv then [Tok.absent] else [Tok.present, t]
        | none => [t]), { c with off := o }) := by
  unfold Df.decode
  simp only [hp, ht]
  rcases s.inv with _ | inv
  · rfl
  · simp only
    split_ifs <;> rfl

theorem encode_absent (cfg : Cfg) (s : DfSpec) (inv : Int) (rest : List Tok) (c : Cur)
    (hinv : s.inv = some inv) :
    Df.encode cfg s (.absent :: rest) c =
      putPat cfg s c (Bits.ofInt s.it.w inv) rest := by
  unfold Df.encode
  simp only [hinv, putPat]
  rcases Bits.put cfg s.it c.data c.off _ s.len with ⟨d, o⟩ | e | w <;> rfl

theorem encode_present (cfg : Cfg) (s : DfSpec) (inv : Int) (v : Tok) (rest : List Tok) (c : Cur)
    (pat : Nat) (hinv : s.inv = some inv) (hq : quantise s v = .ok pat) :
    Df.encode cfg s (.present :: v :: rest) c =
      putPat cfg s c pat rest := by
  unfold Df.encode
  simp only [hinv, hq, putPat]
  rcases Bits.put cfg s.it c.data c.off _ s.len with ⟨d, o⟩ | e | w <;> rfl

theorem encode_ord (cfg : Cfg) (s : DfSpec) (v : Tok) (rest : List Tok) (c : Cur)
    (pat : Nat) (hinv : s.inv = none) (hq : quantise s v = .ok pat) :
    Df.encode cfg s (v :: rest) c =
      putPat cfg s c pat rest := by
  unfold Df.encode
  simp only [hinv, hq, putPat]
  rcases Bits.put cfg s.it c.data c.off _ s.len with ⟨d, o⟩ | e | w <;> rfl


/-! ### float `dt`: rational model of the `df!` bodies -/

/-- `value - bias` as computed by `encode` (no operation if the field has no bias) -/
def qd (fmt : Fmt) (hasBias : Bool) (b v : ℚ) : ℚ := if hasBias then rnd fmt (v - b) else v
/-- `… / res` -/
def qq (fmt : Fmt) (hasBias : Bool) (r b v : ℚ) : ℚ := rnd fmt (qd fmt hasBias b v / r)
/-- the `±0.5` of `round: true` -/
def qh (q : ℚ) : ℚ := if 0 ≤ q then 1 / 2 else -(1 / 2)
/-- `… + ±0.5` -/
def qw (fmt : Fmt) (hasBias : Bool) (r b v : ℚ) : ℚ :=
  rnd fmt (qq fmt hasBias r b v + qh (qq fmt hasBias r b v))
/-- `as` cast to the carrier: truncation, then saturation -/
def clampI (z lo hi : Int) : Int := if z < lo then lo else if hi < z then hi else z
/-- the integer `encode` puts for the (finite) value `v` -/
def qk (fmt : Fmt) (hasBias : Bool) (r b v : ℚ) : Int := truncRat (qw fmt hasBias r b v)

/-- `value as dt * res` -/
def dy (fmt : Fmt) (r : ℚ) (k : Int) : ℚ := rnd fmt ((k : ℚ) * r)
/-- `… + bias` -/
def dx (fmt : Fmt) (hasBias : Bool) (r b : ℚ) (k : Int) : ℚ :=
  if hasBias then rnd fmt (dy fmt r k + b) else dy fmt r k

theorem half_val_pos : (F.fin false (1 / 2)).Val (1 / 2) := ⟨false, 1/2, rfl, by norm_num, rfl⟩
theorem half_val_neg : (F.fin true (1 / 2)).Val (-(1 / 2)) := ⟨true, 1/2, rfl, by norm_num, rfl⟩

/-- `Df.quantise` on a finite float, in terms of the rational model -/
theorem quantise_flt (s : DfSpec) (hf : s.dt.isFloat = true) (re : FExpr) (r b : ℚ)
    (hres : s.res = some re) (hre : evalF (fmtOf s.dt) re = .fin false r) (hr : 0 < r)
    (hround : s.round = some true)
    (hbias : ∀ be, s.bias = some be → evalF (fmtOf s.dt) be = .fin false b ∧ 0 ≤ b)
    (bits : Nat) (v : ℚ) (hv : (ofBits (fmtOf s.dt) bits).Val v)
    (hge : s.bias.isSome = true → b ≤ v)
    (h1 : s.bias.isSome = true → NoOvf (fmtOf s.dt) (v - b))
    (h2 : NoOvf (fmtOf s.dt) (qd (fmtOf s.dt) s.bias.isSome b v / r))
    (h3 : NoOvf (fmtOf s.dt) (qq (fmtOf s.dt) s.bias.isSome r b v
            + qh (qq (fmtOf s.dt) s.bias.isSome r b v))) :
    quantise s (.flt bits) = .ok (Bits.ofInt s.it.w
      (clampI (qk (fmtOf s.dt) s.bias.isSome r b v) (carrierRange s.it).1 (carrierRange s.it).2)) := by
  have hrv : (F.fin false r).Val r := val_fin_false hr.le
  -- the common tail after the bias step
  have tail : ∀ (X : F) (d : ℚ), X.Val d → NoOvf (fmtOf s.dt) (d / r) →
      NoOvf (fmtOf s.dt) (rnd (fmtOf s.dt) (d / r) + qh (rnd (fmtOf s.dt) (d / r))) →
      toIntSat (add (fmtOf s.dt) (div (fmtOf s.dt) X (.fin false r))
          (if ge (div (fmtOf s.dt) X (.fin false r)) zero then .fin false (1 / 2)
           else .fin true (1 / 2))) (carrierRange s.it).1 (carrierRange s.it).2
        = clampI (truncRat (rnd (fmtOf s.dt)
            (rnd (fmtOf s.dt) (d / r) + qh (rnd (fmtOf s.dt) (d / r)))))
            (carrierRange s.it).1 (carrierRange s.it).2 := by
    intro X d hX hd2 hd3
    have hq := F.Val.div hX hrv hr.ne' hd2
    have hge0 : ge (div (fmtOf s.dt) X (.fin false r)) zero
        = decide (0 ≤ rnd (fmtOf s.dt) (d / r)) := F.Val.ge hq zero_val
    have hh : (if ge (div (fmtOf s.dt) X (.fin false r)) zero then F.fin false (1 / 2)
        else F.fin true (1 / 2)).Val (qh (rnd (fmtOf s.dt) (d / r))) := by
      rw [hge0]; unfold qh
      by_cases h0 : 0 ≤ rnd (fmtOf s.dt) (d / r)
      · simp only [h0, decide_true, if_true]; exact half_val_pos
      · simp only [h0, decide_false, if_false]; exact half_val_neg
    have hw := F.Val.add hq hh hd3
    rw [F.Val.toIntSat hw]; rfl
  unfold quantise
  simp only [hf, if_true, hres, hround]
  rcases hb : s.bias with _ | be
  · simp only [hb, Option.isSome_none, qd, Bool.false_eq_true, if_false] at h2 h3 ⊢
    have := tail _ v hv h2 h3
    rcases hc : carrierRange s.it with ⟨lo, hi⟩
    rw [hc] at this
    simp only [hre] at this ⊢
    rw [this]; rfl
  · obtain ⟨hbe, hb0⟩ := hbias be hb
    have hbv : (F.fin false b).Val b := val_fin_false hb0
    simp only [hb, Option.isSome_some, qd, if_true, forall_const] at h1 h2 h3 hge ⊢
    rw [hbe, F.Val.ge hv hbv]
    simp only [hge, decide_true, if_true]
    have hd := F.Val.sub hv hbv h1
    have := tail _ _ hd h2 h3
    rcases hc : carrierRange s.it with ⟨lo, hi⟩
    rw [hc] at this
    simp only [hre] at this ⊢
    rw [this]; rfl


/-! ### unpacking the Boolean well-formedness predicate -/

/-- `okMag` as a proposition -/
def OkMag (fmt : Fmt) (M : ℚ) : Prop := pow2 fmt.emin ≤ M ∧ M * (1 + ur fmt) < omega fmt

theorem okMag_spec {fmt : Fmt} {M : ℚ} (h : okMag fmt M = true) : OkMag fmt M := by
  unfold okMag at h
  simp only [Bool.and_eq_true, decide_eq_true_eq] at h
  exact h

/-- one rounding step under a magnitude bound -/
theorem OkMag.step {fmt : Fmt} {M y : ℚ} (ok : OkMag fmt M) (hy : |y| ≤ M) :
    NoOvf fmt y ∧ |rnd fmt y - y| ≤ M * ur fmt ∧ |rnd fmt y| ≤ M * (1 + ur fmt) :=
  ⟨noOvf_of_le fmt hy ok.1 ok.2, rnd_err_le fmt hy ok.1, abs_rnd_le fmt hy ok.1⟩

theorem OkMag.nonneg {fmt : Fmt} {M : ℚ} (ok : OkMag fmt M) : 0 ≤ M :=
  le_trans (pow2_pos _).le ok.1

structure NumOK (fmt : Fmt) (len : Nat) (r b : ℚ) : Prop where
  r_pos : 0 < r
  b_nonneg : 0 ≤ b
  r_norm : pow2 fmt.emin ≤ r
  b_rep : rmv fmt b = b
  ok1 : OkMag fmt (num fmt len r b).M1
  ok2 : OkMag fmt (num fmt len r b).M2
  ok3 : OkMag fmt (num fmt len r b).M3
  ok4 : OkMag fmt (num fmt len r b).M4
  ok5 : OkMag fmt (num fmt len r b).M5
  ok6 : OkMag fmt (num fmt len r b).M6
  hE : (num fmt len r b).E + (num fmt len r b).u * (num fmt len r b).M5 < 1 / 2
  hdq : (num fmt len r b).dq + (num fmt len r b).u * (num fmt len r b).M5 < 1 / 2

theorem wfNum_spec {fmt : Fmt} {len : Nat} {r b : ℚ} (h : wfNum fmt len r b = true) :
    NumOK fmt len r b := by
  unfold wfNum at h
  simp only [Bool.and_eq_true, decide_eq_true_eq] at h
  obtain ⟨⟨⟨⟨⟨⟨⟨⟨⟨⟨⟨h1, h2⟩, h3⟩, hrep⟩, h4⟩, h5⟩, h6⟩, h7⟩, h8⟩, h9⟩, h10⟩, h11⟩ := h
  have hrep' : rmv fmt b = b := by
    rw [roundMag_eq] at hrep
    split_ifs at hrep with hc
    exact Option.some.inj hrep
  exact ⟨h1, h2, h3, hrep', okMag_spec h4, okMag_spec h5, okMag_spec h6, okMag_spec h7, okMag_spec h8,
    okMag_spec h9, h10, h11⟩

/-- the constants of a well-formed float field -/
structure FltOK (s : DfSpec) (re : FExpr) (r b : ℚ) : Prop where
  len_lt : s.len < (fmtOf s.dt).p
  res_eq : s.res = some re
  res_val : evalF (fmtOf s.dt) re = .fin false r
  round_eq : s.round = some true
  bias_none : s.bias = none → b = 0
  bias_some : ∀ be, s.bias = some be → evalF (fmtOf s.dt) be = .fin false b ∧ s.it.kind = .u
  numOK : NumOK (fmtOf s.dt) s.len r b

theorem wfFlt_spec {s : DfSpec} (h : wfFlt s = true) : ∃ re r b, FltOK s re r b := by
  unfold wfFlt at h
  simp only [Bool.and_eq_true, decide_eq_true_eq, Bool.or_eq_true, beq_iff_eq] at h
  obtain ⟨⟨⟨⟨hlen, hres⟩, hround⟩, hkind⟩, hm⟩ := h
  obtain ⟨re, hre⟩ := Option.isSome_iff_exists.mp hres
  rw [hre] at hm
  unfold fconst at hm
  simp only at hm
  rcases hev : evalF (fmtOf s.dt) re with _ | _ | ⟨sg, r⟩
  · simp [hev] at hm
  · simp [hev] at hm
  · cases sg
    swap
    · simp [hev] at hm
    · rcases hb : s.bias with _ | be
      · simp only [hev, hb] at hm
        exact ⟨re, r, 0, hlen, hre, hev, hround, fun _ => rfl, (fun be h => by rw [hb] at h; cases h),
          wfNum_spec hm⟩
      · simp only [hev, hb] at hm
        rcases hevb : evalF (fmtOf s.dt) be with _ | _ | ⟨sgb, b⟩
        · simp [hevb] at hm
        · simp [hevb] at hm
        · cases sgb
          swap
          · simp [hevb] at hm
          · simp only [hevb] at hm
            have hk : s.it.kind = .u := by
              rcases hkind with h | h
              · simp [hb] at h
              · exact h
            refine ⟨re, r, b, hlen, hre, hev, hround, (fun h => by rw [hb] at h; cases h), ?_, wfNum_spec hm⟩
            intro be' hbe'
            rw [hb] at hbe'
            cases hbe'
            exact ⟨hevb, hk⟩

theorem good_fmtOf (dt : DT) : (fmtOf dt).Good := by
  cases dt <;> first | exact good_binary32 | exact good_binary64

theorem fmtOf_emin (dt : DT) : (fmtOf dt).emin ≤ ((fmtOf dt).p : Int) - 1 := by
  cases dt <;> decide

theorem fmtOf_pe (dt : DT) : ((fmtOf dt).p : Int) ≤ (fmtOf dt).emax + 1 := by
  cases dt <;> decide

theorem fmtOf_emin_nonpos (dt : DT) : (fmtOf dt).emin ≤ 0 := by
  cases dt <;> decide


/-! ### the error-bound argument on rationals -/

section chain
variable {fmt : Fmt} {len : Nat} {r b : ℚ}

theorem num_K : (num fmt len r b).K = ((2 ^ len : ℕ) : ℚ) := rfl
theorem num_u : (num fmt len r b).u = ur fmt := rfl
theorem num_M1 : (num fmt len r b).M1 = (num fmt len r b).K * r := rfl
theorem num_M2 : (num fmt len r b).M2 = (num fmt len r b).M1 * (1 + ur fmt) + b := rfl
theorem num_M3 : (num fmt len r b).M3 = (num fmt len r b).M2 * (1 + ur fmt) + b := rfl
theorem num_D : (num fmt len r b).D
    = ur fmt * ((num fmt len r b).M3 + (num fmt len r b).M2 + (num fmt len r b).M1) := rfl
theorem num_M4 : (num fmt len r b).M4 = ((num fmt len r b).M1 + (num fmt len r b).D) / r := rfl
theorem num_E : (num fmt len r b).E
    = (num fmt len r b).D / r + ur fmt * (num fmt len r b).M4 := rfl
theorem num_M5 : (num fmt len r b).M5 = (num fmt len r b).K + 1 := rfl
theorem num_M6 : (num fmt len r b).M6 = (num fmt len r b).M1 * (1 + ur fmt) / r := rfl
theorem num_dq : (num fmt len r b).dq
    = ur fmt * (num fmt len r b).M6 + ur fmt * (num fmt len r b).M1 / r := rfl

theorem truncRat_of_pos_bracket {k : Int} {w : ℚ} (h1 : (k : ℚ) < w) (h2 : w < k + 1)
    (hk : 0 ≤ k) : truncRat w = k := by
  unfold truncRat
  have hk' : (0 : ℚ) ≤ k := by exact_mod_cast hk
  rw [if_neg (not_lt.mpr (by linarith))]
  show ⌊w⌋ = k
  rw [Int.floor_eq_iff]
  exact ⟨h1.le, h2⟩

theorem truncRat_of_neg_bracket {k : Int} {w : ℚ} (h1 : (k : ℚ) - 1 < w) (h2 : w < k)
    (hk : k ≤ 0) : truncRat w = k := by
  unfold truncRat
  have hk' : (k : ℚ) ≤ 0 := by exact_mod_cast hk
  rw [if_pos (by linarith)]
  have : ⌊-w⌋ = -k := by
    rw [Int.floor_eq_iff]
    push_cast
    constructor <;> linarith
  show -⌊-w⌋ = k
  rw [this]; ring

/-- decode side: magnitudes and errors of `fl(k·r)` and `fl(fl(k·r) + b)` -/
theorem deq_chain (ok : NumOK fmt len r b) (hasBias : Bool) (hb : hasBias = false → b = 0)
    (k : Int) (hk : |(k : ℚ)| ≤ (num fmt len r b).K) :
    NoOvf fmt ((k : ℚ) * r) ∧ NoOvf fmt (dy fmt r k + b) ∧
    |dy fmt r k - k * r| ≤ (num fmt len r b).M1 * ur fmt ∧
    |dy fmt r k| ≤ (num fmt len r b).M1 * (1 + ur fmt) ∧
    |dx fmt hasBias r b k - (dy fmt r k + b)| ≤ (num fmt len r b).M2 * ur fmt ∧
    |dx fmt hasBias r b k| ≤ (num fmt len r b).M2 * (1 + ur fmt) := by
  have hr := ok.r_pos
  have hb0 := ok.b_nonneg
  have hu := ur_pos fmt
  simp only [dx, dy]
  have hkr : |(k : ℚ) * r| ≤ (num fmt len r b).M1 := by
    rw [num_M1, abs_mul, abs_of_pos hr]
    exact mul_le_mul_of_nonneg_right hk hr.le
  obtain ⟨no1, e1, a1⟩ := ok.ok1.step hkr
  have hs2 : |rnd fmt ((k : ℚ) * r) + b| ≤ (num fmt len r b).M2 := by
    rw [num_M2]
    calc |rnd fmt ((k : ℚ) * r) + b| ≤ |rnd fmt ((k : ℚ) * r)| + |b| := abs_add_le _ _
      _ ≤ _ := by rw [abs_of_nonneg hb0]; linarith
  obtain ⟨no2, e2, a2⟩ := ok.ok2.step hs2
  have hM2u := mul_nonneg ok.ok2.nonneg hu.le
  refine ⟨no1, no2, e1, a1, ?_, ?_⟩
  · cases hasBias
    · have hb' : b = 0 := hb rfl
      simp only [Bool.false_eq_true, if_false]
      rw [show rnd fmt ((k : ℚ) * r) - (rnd fmt ((k : ℚ) * r) + b) = 0 by rw [hb']; ring, abs_zero]
      exact hM2u
    · simpa using e2
  · cases hasBias
    · have hb' : b = 0 := hb rfl
      simp only [Bool.false_eq_true, if_false]
      have h2 : (num fmt len r b).M2 = (num fmt len r b).M1 * (1 + ur fmt) := by
        rw [num_M2, hb', add_zero]
      linarith
    · simpa using a2

/-- encode side, applied to a value `x` that is within the decode error of `k·r + b`:
no overflow anywhere, and the cast returns exactly `k` -/
theorem enc_chain (ok : NumOK fmt len r b) (hasBias : Bool) (hb : hasBias = false → b = 0)
    (k : Int) (hk : |(k : ℚ)| ≤ (num fmt len r b).K) (y1 x : ℚ)
    (h1 : |y1 - k * r| ≤ (num fmt len r b).M1 * ur fmt)
    (h2 : |x - (y1 + b)| ≤ (num fmt len r b).M2 * ur fmt)
    (h3 : |x| ≤ (num fmt len r b).M2 * (1 + ur fmt)) :
    NoOvf fmt (x - b) ∧ NoOvf fmt (qd fmt hasBias b x / r) ∧
    NoOvf fmt (qq fmt hasBias r b x + qh (qq fmt hasBias r b x)) ∧
    qk fmt hasBias r b x = k := by
  have hr := ok.r_pos
  have hb0 := ok.b_nonneg
  have hu := ur_pos fmt
  have hE := ok.hE
  rw [num_u] at hE
  -- step 3: d = fl(x - b)
  have hs3 : |x - b| ≤ (num fmt len r b).M3 := by
    rw [num_M3]
    calc |x - b| ≤ |x| + |b| := abs_sub _ _
      _ ≤ _ := by rw [abs_of_nonneg hb0]; linarith
  obtain ⟨no3, e3, -⟩ := ok.ok3.step hs3
  have hd : |qd fmt hasBias b x - (x - b)| ≤ (num fmt len r b).M3 * ur fmt := by
    cases hasBias
    · have hb' : b = 0 := hb rfl
      simp only [qd, Bool.false_eq_true, if_false]
      rw [show x - (x - b) = 0 by rw [hb']; ring, abs_zero]
      exact mul_nonneg ok.ok3.nonneg hu.le
    · simpa [qd] using e3
  unfold qk qw qq
  generalize qd fmt hasBias b x = d at hd ⊢
  -- |d - k r| ≤ D
  have hD : |d - k * r| ≤ (num fmt len r b).D := by
    rw [num_D]
    have a := abs_le.mp hd
    have b' := abs_le.mp h2
    have c := abs_le.mp h1
    rw [abs_le]
    constructor <;> nlinarith [a.1, a.2, b'.1, b'.2, c.1, c.2]
  have hkr : |(k : ℚ) * r| ≤ (num fmt len r b).M1 := by
    rw [num_M1, abs_mul, abs_of_pos hr]
    exact mul_le_mul_of_nonneg_right hk hr.le
  have hdm : |d| ≤ (num fmt len r b).M1 + (num fmt len r b).D := by
    have a := abs_le.mp hD
    have c := abs_le.mp hkr
    rw [abs_le]
    constructor <;> linarith [a.1, a.2, c.1, c.2]
  have hs4 : |d / r| ≤ (num fmt len r b).M4 := by
    rw [num_M4, abs_div, abs_of_pos hr]
    exact div_le_div_of_nonneg_right hdm hr.le
  obtain ⟨no4, e4, -⟩ := ok.ok4.step hs4
  have hdk : |d / r - k| ≤ (num fmt len r b).D / r := by
    have : d / r - k = (d - k * r) / r := by field_simp
    rw [this, abs_div, abs_of_pos hr]
    exact div_le_div_of_nonneg_right hD hr.le
  have hqk : |rnd fmt (d / r) - k| ≤ (num fmt len r b).E := by
    rw [num_E]
    have a := abs_le.mp e4
    have c := abs_le.mp hdk
    rw [abs_le]
    constructor <;> linarith [a.1, a.2, c.1, c.2]
  generalize rnd fmt (d / r) = q at hqk ⊢
  have hM5pos : 0 ≤ (num fmt len r b).M5 := ok.ok5.nonneg
  have hElt : (num fmt len r b).E < 1 / 2 := by nlinarith
  have hqk' := abs_le.mp hqk
  have hk' := abs_le.mp hk
  have hs5 : |q + qh q| ≤ (num fmt len r b).M5 := by
    rw [num_M5]
    unfold qh
    split_ifs <;> (rw [abs_le]; constructor <;> linarith [hqk'.1, hqk'.2, hk'.1, hk'.2])
  obtain ⟨no5, e5, -⟩ := ok.ok5.step hs5
  refine ⟨no3, no4, no5, ?_⟩
  have e5' := abs_le.mp e5
  generalize rnd fmt (q + qh q) = w at e5' ⊢
  have hm : (num fmt len r b).M5 * ur fmt = ur fmt * (num fmt len r b).M5 := mul_comm _ _
  by_cases hq0 : 0 ≤ q
  · have hh : qh q = 1 / 2 := by unfold qh; rw [if_pos hq0]
    rw [hh] at e5'
    have hk0 : 0 ≤ k := by
      have : (-1 : ℚ) < k := by linarith [hqk'.2]
      have : (-1 : Int) < k := by exact_mod_cast this
      omega
    apply truncRat_of_pos_bracket _ _ hk0 <;> linarith [e5'.1, e5'.2, hqk'.1, hqk'.2]
  · have hh : qh q = -(1 / 2) := by unfold qh; rw [if_neg hq0]
    rw [hh] at e5'
    have hk0 : k ≤ 0 := by
      have : (k : ℚ) < 1 := by linarith [hqk'.1, not_le.mp hq0]
      have : k < 1 := by exact_mod_cast this
      omega
    apply truncRat_of_neg_bracket _ _ hk0 <;> linarith [e5'.1, e5'.2, hqk'.1, hqk'.2]

end chain


/-! ### carrier ranges -/

theorem wfBasic_spec {s : DfSpec} (h : wfBasic s = true) : 1 ≤ s.len ∧ s.len ≤ s.it.w := by
  unfold wfBasic at h
  simp only [Bool.and_eq_true, decide_eq_true_eq] at h
  exact ⟨h.1.1, h.1.2⟩

theorem inRange_bounds {s : DfSpec} {sv : Int} (hl : 1 ≤ s.len) (h : InRange s sv) :
    -((2 : Int) ^ s.len) ≤ sv ∧ sv ≤ (2 : Int) ^ s.len := by
  obtain ⟨l, hl'⟩ : ∃ l, s.len = l + 1 := ⟨s.len - 1, by omega⟩
  unfold InRange svLo svHi at h
  rw [hl'] at h ⊢
  have hp : (0 : Int) < 2 ^ l := by positivity
  have h2 : (2 : Int) ^ (l + 1) = 2 * 2 ^ l := by ring
  simp only [Nat.add_sub_cancel] at h
  rw [h2] at h ⊢
  generalize (2 : Int) ^ l = P at *
  rcases hk : s.it.kind <;> simp only [hk] at h <;> omega

theorem inRange_abs {s : DfSpec} {sv : Int} (hl : 1 ≤ s.len) (h : InRange s sv) :
    |(sv : ℚ)| ≤ ((2 ^ s.len : ℕ) : ℚ) := by
  obtain ⟨h1, h2⟩ := inRange_bounds hl h
  rw [abs_le]
  constructor
  · have : ((-((2 : Int) ^ s.len) : Int) : ℚ) ≤ sv := by exact_mod_cast h1
    push_cast at this ⊢; exact this
  · have : (sv : ℚ) ≤ (((2 : Int) ^ s.len : Int) : ℚ) := by exact_mod_cast h2
    push_cast at this ⊢; exact this

theorem inRange_natAbs {s : DfSpec} {sv : Int} (hl : 1 ≤ s.len) (h : InRange s sv) :
    sv.natAbs ≤ 2 ^ s.len := by
  obtain ⟨h1, h2⟩ := inRange_bounds hl h
  have : ((sv.natAbs : ℕ) : Int) ≤ ((2 ^ s.len : ℕ) : Int) := by
    push_cast
    rw [abs_le]
    exact ⟨h1, h2⟩
  exact_mod_cast this

theorem inRange_carrier {s : DfSpec} {sv : Int} (hb : wfBasic s = true) (h : InRange s sv) :
    (carrierRange s.it).1 ≤ sv ∧ sv ≤ (carrierRange s.it).2 := by
  obtain ⟨hl, hw⟩ := wfBasic_spec hb
  obtain ⟨l, hl'⟩ : ∃ l, s.len = l + 1 := ⟨s.len - 1, by omega⟩
  obtain ⟨w, hw'⟩ : ∃ w, s.it.w = w + 1 := ⟨s.it.w - 1, by omega⟩
  have hlw : l ≤ w := by omega
  have hpow : (2 : Int) ^ l ≤ 2 ^ w := pow_le_pow_right₀ (by norm_num) hlw
  have hp : (0 : Int) < 2 ^ l := by positivity
  unfold InRange svLo svHi at h
  unfold carrierRange IT.signed
  rw [hl'] at h
  rw [hw']
  simp only [Nat.add_sub_cancel] at h ⊢
  have h2 : (2 : Int) ^ (l + 1) = 2 * 2 ^ l := by ring
  have h3 : (2 : Int) ^ (w + 1) = 2 * 2 ^ w := by ring
  rw [h2] at h
  rcases hk : s.it.kind <;> simp only [hk] at h ⊢ <;> push_cast <;>
    (try rw [h3]) <;> generalize (2 : Int) ^ l = P at * <;> generalize (2 : Int) ^ w = W at * <;>
    simp <;> omega

theorem inRange_u_nonneg {s : DfSpec} {sv : Int} (hk : s.it.kind = .u) (h : InRange s sv) :
    0 ≤ sv := by
  unfold InRange svLo at h
  simp only [hk] at h
  exact h.1

theorem clampI_of_mem {z lo hi : Int} (h1 : lo ≤ z) (h2 : z ≤ hi) : clampI z lo hi = z := by
  unfold clampI
  rw [if_neg (by omega), if_neg (by omega)]

end Rtcm.DfLaws
