import Rtcm.Proofs.CurLaws
import Rtcm.Model.Bias
import Rtcm.Props.C18
import Mathlib.Data.List.Perm.Basic
/-!
# Writer / reader agreement for the bias lists (1059, 1065, 1230)

Built on `Rtcm.CurLaws` (field law `putF_law`, `Ext`, `AgreeOn`).
-/
namespace Rtcm.BiasLaws
open Rtcm.Bits Rtcm.Text Rtcm.Bias Rtcm.CurLaws Rtcm.Schema

/-! ### i16 fields -/

theorem putI16_eq (cfg : Cfg) (v len : Nat) (c : Cur) :
    putI16 cfg v len c = putF cfg ⟨.i, 16⟩ v len c := rfl

theorem parseI16_of_parseF {cfg : Cfg} {len : Nat} {c c' : Cur} {v : Nat}
    (h : parseF cfg ⟨.i, 16⟩ len c = .ok (v, c')) : parseI16 cfg len c = .ok (toInt 16 v, c') := by
  unfold parseF at h
  unfold parseI16
  split at h
  · next v' o heq =>
    simp only [Res.ok.injEq, Prod.mk.injEq] at h
    obtain ⟨rfl, rfl⟩ := h
    simp [heq]
  · cases h
  · cases h

theorem ofInt_lt (w : Nat) (z : Int) : ofInt w z < 2 ^ w := by
  unfold ofInt
  have hpos : (0 : Int) < ((2 ^ w : Nat) : Int) := by exact_mod_cast Nat.two_pow_pos w
  have h1 := Int.emod_lt_of_pos z hpos
  have h0 := Int.emod_nonneg z (Int.ne_of_gt hpos)
  omega

theorem quantBias_lt (res : SoftFloat.F) (bits : Nat) : quantBias res bits < 2 ^ 16 :=
  ofInt_lt 16 _

/-- what a 14-bit two's-complement field returns for a 16-bit pattern: the low 14 bits,
sign-extended -/
def wire14 (q : Nat) : Nat := readValue ⟨.i, 16⟩ 14 (wireValue ⟨.i, 16⟩ 14 q)

/-- the entry as it comes back from a 1059/1065 frame: bias quantised to 0.01 m, the integer
cut to 14 bits (sign-extended), times 0.01 -/
def norm14 (e : Entry) : Entry :=
  { e with bias := dequantBias res001 (toInt 16 (wire14 (quantBias res001 e.bias))) }

/-- the entry on the 0.01 m grid when the integer fits the 14-bit field -/
def normalise (e : Entry) : Entry :=
  { e with bias := dequantBias res001 (toInt 16 (quantBias res001 e.bias)) }

/-- `-8192 ≤ q < 8192` for the quantised bias, i.e. |bias| up to 81.91 m -/
def Fits14 (e : Entry) : Prop :=
  -8192 ≤ toInt 16 (quantBias res001 e.bias) ∧ toInt 16 (quantBias res001 e.bias) < 8192

theorem wire14_of_fits {q : Nat} (hq : q < 2 ^ 16) (h : -8192 ≤ toInt 16 q ∧ toInt 16 q < 8192) :
    wire14 q = q :=
  readValue_wireValue ⟨.i, 16⟩ (by decide) (by decide) hq (by
    show -((2 ^ (14 - 1) : Nat) : Int) ≤ toInt 16 q ∧ toInt 16 q < ((2 ^ (14 - 1) : Nat) : Int)
    exact h)

theorem norm14_of_fits (e : Entry) (h : Fits14 e) : norm14 e = normalise e := by
  unfold norm14 normalise
  rw [wire14_of_fits (quantBias_lt _ _) h]

/-! ### signal tables -/

structure TblOk (t : SigTable) : Prop where
  nodup : (t.map (·.1)).Nodup
  lt32 : ∀ r ∈ t, r.1 < 32

theorem toId_facts {t : SigTable} (ht : TblOk t) {b a sid : Nat} (h : Sig.toId t b a = some sid) :
    sid < 2 ^ 5 ∧ Sig.toSig t sid = some (b, a) := by
  have hm := C18.toId_mem t b a sid h
  refine ⟨ht.lt32 _ hm, ?_⟩
  unfold Sig.toSig
  cases hf : t.find? (fun r => r.1 == sid) with
  | none =>
    rw [List.find?_eq_none] at hf
    exact absurd (hf _ hm) (by simp)
  | some r =>
    have hr := List.mem_of_find?_eq_some hf
    have hp := List.find?_some hf
    simp only [beq_iff_eq] at hp
    have := C18.nodup_map_inj (·.1) t ht.nodup r (sid, b, a) hr hm hp
    simp [this]

/-! ### entries of one satellite -/

theorem encEntries_law (cfg : Cfg) (p : Params) (ht : TblOk p.tbl) :
    ∀ (es : List Entry) (c c' : Cur), Good c → c.off ≤ 8 * c.data.length →
      (∀ e ∈ es, (Sig.toId p.tbl e.band e.attr).isSome) →
      encEntries cfg p es c = .ok c' →
      Ext c c' ∧ c'.off = c.off + 19 * es.length ∧
      ∀ (D : List Nat) (acc : List Entry) (sat : Nat), D.length = c'.data.length →
        AgreeOn D c'.data c.off c'.off → acc.length + es.length ≤ p.cap →
        (∀ e ∈ es, e.sat = sat) →
        decBiases cfg p sat es.length acc ⟨D, c.off⟩ = .ok (acc ++ es.map norm14, ⟨D, c'.off⟩) := by
  intro es
  induction es with
  | nil =>
    intro c c' hg hfit _ h
    simp only [encEntries, Res.ok.injEq] at h
    subst h
    refine ⟨Ext.refl hg hfit, by simp, ?_⟩
    intro D acc sat _ _ _ _
    simp [decBiases]
  | cons e es ih =>
    intro c c' hg hfit hrec h
    obtain ⟨sid, hsid⟩ := Option.isSome_iff_exists.mp (hrec e (by simp))
    obtain ⟨hlt, hsig⟩ := toId_facts ht hsid
    simp only [encEntries, hsid] at h
    cases h1 : putU cfg 8 sid 5 c with
    | err x => rw [h1] at h; cases h
    | panic x => rw [h1] at h; cases h
    | ok c1 =>
      rw [h1] at h
      simp only at h
      cases h2 : putI16 cfg (quantBias res001 e.bias) 14 c1 with
      | err x => rw [h2] at h; cases h
      | panic x => rw [h2] at h; cases h
      | ok c2 =>
        rw [h2] at h
        simp only at h
        obtain ⟨e1, o1, r1⟩ := putU_law cfg (by decide) (by decide) hg hlt h1
        obtain ⟨e2, o2, r2⟩ := putF_law cfg ⟨.i, 16⟩ (by decide) (by decide) (by decide)
          (by decide) e1.good (quantBias_lt _ _) h2
        obtain ⟨e3, o3, r3⟩ := ih c2 c' e2.good e2.fit (fun x hx => hrec x (by simp [hx])) h
        have e12 := e1.trans e2
        refine ⟨e12.trans e3, by simp only [o1, o2, o3, List.length_cons]; omega, ?_⟩
        intro D acc sat hD ha hcap hsat
        have hD2 : D.length = c2.data.length := hD.trans e3.len
        have hD1 : D.length = c1.data.length := hD2.trans e2.len
        have a2 : AgreeOn D c2.data c.off c2.off := e3.agree_left ha
        have a1 : AgreeOn D c1.data c.off c1.off := e2.agree_left a2
        simp only [List.length_cons] at hcap
        simp only [List.length_cons, decBiases]
        rw [r1 D hD1 a1]
        simp only [hsig]
        rw [parseI16_of_parseF (r2 D hD2 (a2.mono e1.le (Nat.le_refl _)))]
        simp only
        rw [if_neg (by omega)]
        rw [r3 D _ sat hD (ha.mono e12.le (Nat.le_refl _)) (by simp; omega)
          (fun x hx => hsat x (by simp [hx]))]
        have hs := hsat e (by simp)
        simp [norm14, wire14, ← hs]

/-- without the recognised-signal hypothesis: the encoder of one satellite's entries never
panics; it succeeds or reports BufferOverflow -/
theorem encEntries_total (cfg : Cfg) (p : Params) (ht : TblOk p.tbl) :
    ∀ (es : List Entry) (c : Cur), Good c → c.off ≤ 8 * c.data.length →
      (∃ c', encEntries cfg p es c = .ok c' ∧ Ext c c') ∨
        encEntries cfg p es c = .err .bufferOverflow := by
  intro es
  induction es with
  | nil => intro c hg hfit; exact Or.inl ⟨c, rfl, Ext.refl hg hfit⟩
  | cons e es ih =>
    intro c hg hfit
    simp only [encEntries]
    cases hsid : Sig.toId p.tbl e.band e.attr with
    | none => exact ih c hg hfit
    | some sid =>
      obtain ⟨hlt, _⟩ := toId_facts ht hsid
      simp only
      rcases putU_ok_or_overflow cfg (len := 5) (by decide) (by decide) hg hlt with ⟨c1, h1⟩ | h1
      · obtain ⟨e1, _, _⟩ := putU_law cfg (by decide) (by decide) hg hlt h1
        rw [h1]
        simp only
        rcases putF_ok_or_overflow cfg ⟨.i, 16⟩ (by decide) (by decide) (len := 14) (by decide)
          (by decide) e1.good (quantBias_lt res001 e.bias) with ⟨c2, h2⟩ | h2
        · obtain ⟨e2, _, _⟩ := putF_law cfg ⟨.i, 16⟩ (by decide) (by decide) (by decide)
            (by decide) e1.good (quantBias_lt _ _) h2
          rw [putI16_eq, h2]
          simp only
          rcases ih c2 e2.good e2.fit with ⟨c3, h3, e3⟩ | h3
          · exact Or.inl ⟨c3, h3, (e1.trans e2).trans e3⟩
          · exact Or.inr h3
        · rw [putI16_eq, h2]
          exact Or.inr rfl
      · rw [h1]
        exact Or.inr rfl

/-! ### the satellite loop -/

structure ParamsOk (p : Params) : Prop where
  satBits1 : 1 ≤ p.satBits
  satBits8 : p.satBits ≤ 8
  maxSat : p.maxSat < 2 ^ p.satBits
  satNum : p.checkSatNum = true ∨ p.maxSat < 63
  tbl : TblOk p.tbl

theorem filter_recognised_eq (p : Params) (v : List Entry)
    (hrec : ∀ e ∈ v, (Sig.toId p.tbl e.band e.attr).isSome) (s : Nat) :
    ((v.filter fun e => e.sat == s).filter fun e => (Sig.toId p.tbl e.band e.attr).isSome)
      = v.filter fun e => e.sat == s := by
  rw [List.filter_eq_self]
  intro e he
  exact hrec e (List.mem_filter.mp he).1

theorem encSats_law (cfg : Cfg) (p : Params) (hp : ParamsOk p) (v : List Entry)
    (hrec : ∀ e ∈ v, (Sig.toId p.tbl e.band e.attr).isSome) :
    ∀ (ss : List Nat) (c c' : Cur), Good c → c.off ≤ 8 * c.data.length →
      (∀ s ∈ ss, s < 2 ^ p.satBits) →
      encSats cfg p v ss c = .ok c' →
      Ext c c' ∧
      ∀ (D : List Nat) (acc : List Entry), D.length = c'.data.length →
        AgreeOn D c'.data c.off c'.off →
        acc.length + (ss.flatMap fun s => v.filter fun e => e.sat == s).length ≤ p.cap →
        decSats cfg p ss.length acc ⟨D, c.off⟩
          = .ok (acc ++ ss.flatMap (fun s => (v.filter fun e => e.sat == s).map norm14),
                 ⟨D, c'.off⟩) := by
  intro ss
  induction ss with
  | nil =>
    intro c c' hg hfit _ h
    simp only [encSats, Res.ok.injEq] at h
    subst h
    refine ⟨Ext.refl hg hfit, ?_⟩
    intro D acc _ _ _
    simp [decSats]
  | cons s ss ih =>
    intro c c' hg hfit hss h
    have hs : s < 2 ^ p.satBits := hss s (by simp)
    simp only [encSats, filter_recognised_eq p v hrec] at h
    cases h1 : putU cfg 8 s p.satBits c with
    | err x => rw [h1] at h; cases h
    | panic x => rw [h1] at h; cases h
    | ok c1 =>
      rw [h1] at h
      simp only at h
      by_cases hnum : (v.filter fun e => e.sat == s).length > 31
      · rw [if_pos hnum] at h; cases h
      · rw [if_neg hnum] at h
        cases h2 : putU cfg 8 (v.filter fun e => e.sat == s).length 5 c1 with
        | err x => rw [h2] at h; cases h
        | panic x => rw [h2] at h; cases h
        | ok c2 =>
          rw [h2] at h
          simp only at h
          cases h3 : encEntries cfg p (v.filter fun e => e.sat == s) c2 with
          | err x => rw [h3] at h; cases h
          | panic x => rw [h3] at h; cases h
          | ok c3 =>
            rw [h3] at h
            simp only at h
            obtain ⟨e1, o1, r1⟩ := putU_law cfg hp.satBits1 hp.satBits8 hg hs h1
            obtain ⟨e2, o2, r2⟩ := putU_law cfg (len := 5) (by decide) (by decide) e1.good
              (by show _ < 32; omega) h2
            obtain ⟨e3, o3, r3⟩ := encEntries_law cfg p hp.tbl _ c2 c3 e2.good e2.fit
              (fun e he => hrec e (List.mem_filter.mp he).1) h3
            obtain ⟨e4, r4⟩ := ih c3 c' e3.good e3.fit (fun x hx => hss x (by simp [hx])) h
            have e12 := e1.trans e2
            have e13 := e12.trans e3
            refine ⟨e13.trans e4, ?_⟩
            intro D acc hD ha hcap
            have hD3 : D.length = c3.data.length := hD.trans e4.len
            have hD2 : D.length = c2.data.length := hD3.trans e3.len
            have hD1 : D.length = c1.data.length := hD2.trans e2.len
            have a3 : AgreeOn D c3.data c.off c3.off := e4.agree_left ha
            have a2 : AgreeOn D c2.data c.off c2.off := e3.agree_left a3
            have a1 : AgreeOn D c1.data c.off c1.off := e2.agree_left a2
            simp only [List.flatMap_cons, List.length_append] at hcap
            simp only [List.length_cons, decSats]
            rw [r1 D hD1 a1]
            simp only
            rw [r2 D hD2 (a2.mono e1.le (Nat.le_refl _))]
            simp only
            rw [r3 D acc s hD3 (a3.mono e12.le (Nat.le_refl _)) (by omega)
              (fun e he => by simpa using (List.mem_filter.mp he).2)]
            simp only
            rw [r4 D _ hD (ha.mono e13.le (Nat.le_refl _))
              (by simp only [List.length_append, List.length_map]; omega)]
            simp

/-- success of the satellite loop means every per-satellite count fitted its 5-bit field
(no hypothesis on the signals) -/
theorem encSats_counts (cfg : Cfg) (p : Params) (v : List Entry) :
    ∀ (ss : List Nat) (c c' : Cur), encSats cfg p v ss c = .ok c' →
      ∀ s ∈ ss, ((v.filter fun e => e.sat == s).filter
        fun e => (Sig.toId p.tbl e.band e.attr).isSome).length ≤ 31 := by
  intro ss
  induction ss with
  | nil => intro _ _ _ s hs; cases hs
  | cons s ss ih =>
    intro c c' h
    simp only [encSats] at h
    split at h
    · split at h
      · cases h
      · next hnum =>
        split at h
        · split at h
          · intro x hx
            rcases List.mem_cons.mp hx with rfl | hx
            · omega
            · exact ih _ _ h x hx
          · cases h
          · cases h
        · cases h
        · cases h
    · cases h
    · cases h

/-- the satellite loop never panics: it succeeds, or reports OutOfRange (a count above 31) or
BufferOverflow -/
theorem encSats_total (cfg : Cfg) (p : Params) (hp : ParamsOk p) (v : List Entry) :
    ∀ (ss : List Nat) (c : Cur), Good c → c.off ≤ 8 * c.data.length →
      (∀ s ∈ ss, s < 2 ^ p.satBits) →
      (∃ c', encSats cfg p v ss c = .ok c') ∨ encSats cfg p v ss c = .err .outOfRange ∨
        encSats cfg p v ss c = .err .bufferOverflow := by
  intro ss
  induction ss with
  | nil => intro c _ _ _; exact Or.inl ⟨c, rfl⟩
  | cons s ss ih =>
    intro c hg hfit hss
    have hs : s < 2 ^ p.satBits := hss s (by simp)
    simp only [encSats]
    rcases putU_ok_or_overflow cfg hp.satBits1 hp.satBits8 hg hs with ⟨c1, h1⟩ | h1
    · obtain ⟨e1, _, _⟩ := putU_law cfg hp.satBits1 hp.satBits8 hg hs h1
      rw [h1]
      simp only
      split
      · exact Or.inr (Or.inl rfl)
      · next hnum =>
        rcases putU_ok_or_overflow cfg (len := 5) (by decide) (by decide) e1.good
          (Nat.lt_of_le_of_lt (Nat.le_of_not_gt hnum) (by decide : 31 < 2 ^ 5)) with ⟨c2, h2⟩ | h2
        · obtain ⟨e2, _, _⟩ := putU_law cfg (len := 5) (by decide) (by decide) e1.good
            (by show _ < 32; omega) h2
          rw [h2]
          simp only
          rcases encEntries_total cfg p hp.tbl (v.filter fun e => e.sat == s) c2 e2.good e2.fit
            with ⟨c3, h3, e3⟩ | h3
          · rw [h3]
            simp only
            exact ih c3 e3.good e3.fit (fun x hx => hss x (by simp [hx]))
          · rw [h3]
            exact Or.inr (Or.inr rfl)
        · rw [h2]
          exact Or.inr (Or.inr rfl)
    · rw [h1]
      exact Or.inr (Or.inr rfl)

/-! ### grouping by satellite is a permutation -/

theorem filter_append_perm_or {α} (p q : α → Bool) (hd : ∀ e, ¬ (p e = true ∧ q e = true))
    (v : List α) : (v.filter p ++ v.filter q).Perm (v.filter fun e => p e || q e) := by
  induction v with
  | nil => simp
  | cons e v ih =>
    cases hp : p e <;> cases hq : q e
    · simpa [List.filter_cons, hp, hq] using ih
    · simp only [List.filter_cons, hp, hq, Bool.false_or, if_true, Bool.false_eq_true, if_false]
      exact List.perm_middle.trans (List.Perm.cons e ih)
    · simp only [List.filter_cons, hp, hq, Bool.true_or, if_true, Bool.false_eq_true, if_false,
        List.cons_append]
      exact List.Perm.cons e ih
    · exact absurd ⟨hp, hq⟩ (hd e)

theorem flatMap_filter_perm (v : List Entry) :
    ∀ l : List Nat, l.Nodup →
      (l.flatMap fun s => v.filter fun e => e.sat == s).Perm (v.filter fun e => l.contains e.sat) := by
  intro l
  induction l with
  | nil => intro _; simp
  | cons s l ih =>
    intro hnd
    rw [List.nodup_cons] at hnd
    rw [List.flatMap_cons]
    refine ((List.Perm.append_left _ (ih hnd.2)).trans
      (filter_append_perm_or _ _ ?_ v)).trans (List.Perm.of_eq ?_)
    · rintro e ⟨h1, h2⟩
      simp only [beq_iff_eq] at h1
      rw [List.contains_iff_mem] at h2
      exact hnd.1 (h1 ▸ h2)
    · apply List.filter_congr
      intro e _
      by_cases hh : e.sat = s <;> simp [hh]

theorem checkSats_iff (p : Params) (v : List Entry) :
    checkSats p v = true ↔ ∀ e ∈ v, e.sat ≤ p.maxSat := by
  induction v with
  | nil => simp [checkSats]
  | cons e v ih => simp [checkSats, ih]

theorem satsOf_nodup (p : Params) (v : List Entry) : (satsOf p v).Nodup :=
  List.Nodup.sublist List.filter_sublist List.nodup_range

theorem mem_satsOf (p : Params) (v : List Entry) (s : Nat) :
    s ∈ satsOf p v ↔ s ≤ p.maxSat ∧ ∃ e ∈ v, e.sat = s := by
  simp [satsOf, Nat.lt_succ_iff]

theorem satsOf_length_le (p : Params) (v : List Entry) : (satsOf p v).length ≤ p.maxSat + 1 := by
  unfold satsOf
  exact Nat.le_trans (List.length_filter_le _ _) (by simp)

/-- grouping the entries by ascending satellite loses and duplicates nothing -/
theorem group_perm (p : Params) (v : List Entry) (hc : checkSats p v = true) :
    ((satsOf p v).flatMap fun s => v.filter fun e => e.sat == s).Perm v := by
  refine (flatMap_filter_perm v _ (satsOf_nodup p v)).trans (List.Perm.of_eq ?_)
  rw [List.filter_eq_self]
  intro e he
  rw [List.contains_iff_mem, mem_satsOf]
  exact ⟨(checkSats_iff p v).mp hc e he, e, he, rfl⟩

/-! ### the whole 1059 / 1065 list -/

theorem satsOf_length_lt (p : Params) (hp : ParamsOk p) (v : List Entry)
    (h : ¬ (p.checkSatNum && decide ((satsOf p v).length > 63)) = true) :
    (satsOf p v).length < 2 ^ 6 := by
  have hl := satsOf_length_le p v
  rcases hp.satNum with hc | hm
  · simp only [hc, Bool.true_and, decide_eq_true_eq] at h
    show _ < 64
    omega
  · show _ < 64
    omega

theorem encode_decode (cfg : Cfg) (p : Params) (hp : ParamsOk p) (v : List Entry)
    (hrec : ∀ e ∈ v, (Sig.toId p.tbl e.band e.attr).isSome) (hcap : v.length ≤ p.cap)
    (c c' : Cur) (hg : Good c) (h : encode cfg p v c = .ok c') :
    Ext c c' ∧
    ∀ D, D.length = c'.data.length → AgreeOn D c'.data c.off c'.off →
      decode cfg p ⟨D, c.off⟩
        = .ok ((satsOf p v).flatMap (fun s => (v.filter fun e => e.sat == s).map norm14),
               ⟨D, c'.off⟩) := by
  unfold encode at h
  split at h
  · cases h
  · next hcs =>
    simp only [Bool.not_eq_true', Bool.not_eq_false] at hcs
    dsimp only at h
    split at h
    · cases h
    · next hsn =>
      have hlt := satsOf_length_lt p hp v hsn
      cases h1 : putU cfg 8 (satsOf p v).length 6 c with
      | err x => rw [h1] at h; cases h
      | panic x => rw [h1] at h; cases h
      | ok c1 =>
        rw [h1] at h
        simp only at h
        obtain ⟨e1, o1, r1⟩ := putU_law cfg (len := 6) (by decide) (by decide) hg hlt h1
        obtain ⟨e2, r2⟩ := encSats_law cfg p hp v hrec (satsOf p v) c1 c' e1.good e1.fit
          (fun s hs => Nat.lt_of_le_of_lt ((mem_satsOf p v s).mp hs).1 hp.maxSat) h
        refine ⟨e1.trans e2, ?_⟩
        intro D hD ha
        unfold decode
        rw [r1 D (hD.trans e2.len) (e2.agree_left ha)]
        simp only
        have hlen := (group_perm p v hcs).length_eq
        rw [r2 D [] hD (ha.mono e1.le (Nat.le_refl _)) (by simp only [List.length_nil]; omega)]
        simp

/-! ### with room in the buffer a count that does not fit is reported as OutOfRange -/

theorem encEntries_room (cfg : Cfg) (p : Params) (ht : TblOk p.tbl) :
    ∀ (es : List Entry) (c : Cur), Good c → c.off + 19 * es.length ≤ 8 * c.data.length →
      ∃ c', encEntries cfg p es c = .ok c' ∧ Ext c c' ∧ c'.off ≤ c.off + 19 * es.length := by
  intro es
  induction es with
  | nil => intro c hg hroom; exact ⟨c, rfl, Ext.refl hg (by simpa using hroom), by simp⟩
  | cons e es ih =>
    intro c hg hroom
    simp only [List.length_cons] at hroom
    simp only [encEntries]
    cases hsid : Sig.toId p.tbl e.band e.attr with
    | none =>
      obtain ⟨c', h, e', ho⟩ := ih c hg (by omega)
      exact ⟨c', h, e', by simp only [List.length_cons]; omega⟩
    | some sid =>
      obtain ⟨hlt, _⟩ := toId_facts ht hsid
      simp only
      rcases putF_cases cfg ⟨.u, 8⟩ (by decide) (by decide) (len := 5) (by decide) (by decide) hg
        (Nat.lt_of_lt_of_le hlt (by decide)) with ⟨_, c1, h1, o1, e1, _⟩ | ⟨hno, _⟩
      · rw [putU_eq, h1]
        simp only
        rcases putF_cases cfg ⟨.i, 16⟩ (by decide) (by decide) (len := 14) (by decide) (by decide)
          e1.good (quantBias_lt res001 e.bias) with ⟨_, c2, h2, o2, e2, _⟩ | ⟨hno, _⟩
        · rw [putI16_eq, h2]
          simp only
          obtain ⟨c', h, e', ho⟩ := ih c2 e2.good (by rw [o2, o1, e2.len, e1.len]; omega)
          exact ⟨c', h, (e1.trans e2).trans e', by simp only [List.length_cons]; omega⟩
        · rw [o1, e1.len] at hno; omega
      · omega

theorem encSats_room (cfg : Cfg) (p : Params) (hp : ParamsOk p) (v : List Entry) :
    ∀ (ss : List Nat) (c : Cur), Good c → (∀ s ∈ ss, s < 2 ^ p.satBits) →
      c.off + (p.satBits + 5) * ss.length
        + 19 * (ss.flatMap fun s => v.filter fun e => e.sat == s).length ≤ 8 * c.data.length →
      (∃ s ∈ ss, 31 < ((v.filter fun e => e.sat == s).filter
        fun e => (Sig.toId p.tbl e.band e.attr).isSome).length) →
      encSats cfg p v ss c = .err .outOfRange := by
  intro ss
  induction ss with
  | nil => rintro c _ _ _ ⟨s, hs, _⟩; cases hs
  | cons s ss ih =>
    intro c hg hss hroom hbad
    have hs : s < 2 ^ p.satBits := hss s (by simp)
    have h8 := hp.satBits8
    simp only [List.length_cons, List.flatMap_cons, List.length_append] at hroom
    have hmul : (p.satBits + 5) * (ss.length + 1) = (p.satBits + 5) * ss.length + p.satBits + 5 := by
      rw [Nat.mul_succ]; omega
    rw [hmul] at hroom
    simp only [encSats]
    rcases putF_cases cfg ⟨.u, 8⟩ (by decide) (by decide) hp.satBits1 hp.satBits8 hg
      (Nat.lt_of_lt_of_le hs (Nat.pow_le_pow_right (by decide) h8))
      with ⟨_, c1, h1, o1, e1, _⟩ | ⟨hno, _⟩
    · rw [putU_eq, h1]
      simp only
      split
      · rfl
      · next hnum =>
        rcases putF_cases cfg ⟨.u, 8⟩ (by decide) (by decide) (len := 5) (by decide) (by decide)
          e1.good (Nat.lt_of_le_of_lt (Nat.le_of_not_gt hnum) (by decide : 31 < 2 ^ 8))
          with ⟨_, c2, h2, o2, e2, _⟩ | ⟨hno, _⟩
        · rw [putU_eq, h2]
          simp only
          obtain ⟨c3, h3, e3, o3⟩ := encEntries_room cfg p hp.tbl (v.filter fun e => e.sat == s) c2
            e2.good (by rw [o2, o1, e2.len, e1.len]; omega)
          rw [h3]
          simp only
          apply ih c3 e3.good (fun x hx => hss x (by simp [hx]))
          · rw [e3.len, e2.len, e1.len]; omega
          · obtain ⟨x, hx, hcnt⟩ := hbad
            rcases List.mem_cons.mp hx with rfl | hx
            · omega
            · exact ⟨x, hx, hcnt⟩
        · rw [o1, e1.len] at hno; omega
    · omega

theorem encode_room_out_of_range (cfg : Cfg) (p : Params) (hp : ParamsOk p) (v : List Entry)
    (c : Cur) (hg : Good c)
    (hroom : c.off + 6 + (p.satBits + 5) * (satsOf p v).length + 19 * v.length
      ≤ 8 * c.data.length)
    (hbad : ∃ s, 31 < ((v.filter fun e => e.sat == s).filter
        fun e => (Sig.toId p.tbl e.band e.attr).isSome).length) :
    encode cfg p v c = .err .outOfRange := by
  unfold encode
  split
  · rfl
  · next hcs =>
    simp only [Bool.not_eq_true', Bool.not_eq_false] at hcs
    dsimp only
    split
    · rfl
    · next hsn =>
      have hlt := satsOf_length_lt p hp v hsn
      rcases putF_cases cfg ⟨.u, 8⟩ (by decide) (by decide) (len := 6) (by decide) (by decide) hg
        (Nat.lt_of_lt_of_le hlt (by decide)) with ⟨_, c1, h1, o1, e1, _⟩ | ⟨hno, _⟩
      · rw [putU_eq, h1]
        simp only
        apply encSats_room cfg p hp v _ c1 e1.good
          (fun s hs => Nat.lt_of_le_of_lt ((mem_satsOf p v s).mp hs).1 hp.maxSat)
        · rw [(group_perm p v hcs).length_eq, o1, e1.len]; omega
        · obtain ⟨s, hcnt⟩ := hbad
          refine ⟨s, ?_, hcnt⟩
          have hle := List.length_filter_le (fun e : Entry => (Sig.toId p.tbl e.band e.attr).isSome)
            (v.filter fun e => e.sat == s)
          have hpos : 0 < (v.filter fun e => e.sat == s).length := by omega
          obtain ⟨e, he⟩ := List.exists_mem_of_length_pos hpos
          obtain ⟨hev, hes⟩ := List.mem_filter.mp he
          simp only [beq_iff_eq] at hes
          exact (mem_satsOf p v s).mpr ⟨hes ▸ (checkSats_iff p v).mp hcs e hev, e, hev, hes⟩
      · omega

end Rtcm.BiasLaws
