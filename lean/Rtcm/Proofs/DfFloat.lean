import Rtcm.Proofs.DfLaws
/-!
# Float fields: `Df.dequantise` in terms of the rational model, and the round trip
-/
namespace Rtcm.DfLaws
open Rtcm.Bits Rtcm.Schema Rtcm.SoftFloat Rtcm.Df Rtcm.DfWf

theorem isNegZero_fin_of_pos (sg : Bool) {m : ℚ} (h : 0 < m) : (F.fin sg m).isNegZero = false := by
  cases sg
  · rfl
  · simp [F.isNegZero, h.ne']

/-- `Df.dequantise` on a float field: the decoded datum `X` is finite, survives the bit-pattern
round trip, is not `-0`, and its value is the rational model `dx`. -/
theorem dequantise_flt (cfg : Cfg) (s : DfSpec) (hf : s.dt.isFloat = true) (re : FExpr) (r b : ℚ)
    (hres : s.res = some re) (hre : evalF (fmtOf s.dt) re = .fin false r) (hr : 0 < r)
    (hrn : pow2 (fmtOf s.dt).emin ≤ r)
    (hbias : ∀ be, s.bias = some be → evalF (fmtOf s.dt) be = .fin false b ∧ 0 ≤ b)
    (sv : Int) (hsv : sv.natAbs < 2 ^ (fmtOf s.dt).p) (hbk : s.bias.isSome = true → 0 ≤ sv)
    (h1 : NoOvf (fmtOf s.dt) ((sv : ℚ) * r))
    (h2 : s.bias.isSome = true → NoOvf (fmtOf s.dt) (dy (fmtOf s.dt) r sv + b)) :
    ∃ X : F, dequantise cfg s sv = .ok (.flt (toBits (fmtOf s.dt) X)) ∧
      ofBits (fmtOf s.dt) (toBits (fmtOf s.dt) X) = X ∧
      X.Val (dx (fmtOf s.dt) s.bias.isSome r b sv) ∧ X.isNegZero = false := by
  have hg := good_fmtOf s.dt
  have hp1 : 1 ≤ (fmtOf s.dt).p := by have := hg.p_ge; omega
  have hrv : (F.fin false r).Val r := val_fin_false hr.le
  have h0v := ofInt_val (fmtOf s.dt) (fmtOf_emin s.dt) (fmtOf_pe s.dt) sv hsv
  have h0e := ofInt_eq (fmtOf s.dt) (fmtOf_emin s.dt) (fmtOf_pe s.dt) sv hsv
  have hn0 : (0 : ℚ) ≤ ((sv.natAbs : ℕ) : ℚ) := by positivity
  have habs : |(sv : ℚ) * r| = ((sv.natAbs : ℕ) : ℚ) * r := by
    rw [abs_mul, abs_of_pos hr, natAbs_cast_abs]
  have h1' : rmv (fmtOf s.dt) (((sv.natAbs : ℕ) : ℚ) * r) < omega (fmtOf s.dt) := by
    have := h1; unfold NoOvf at this; rwa [habs] at this
  have hmulv := F.Val.mul h0v hrv h1
  have hmule : SoftFloat.mul (fmtOf s.dt) (ofInt (fmtOf s.dt) sv) (.fin false r)
      = .fin (decide ((sv : ℚ) < 0)) (rmv (fmtOf s.dt) (((sv.natAbs : ℕ) : ℚ) * r)) := by
    rw [h0e, mul_fin_eq _ _ _ _ _ h1']; simp
  unfold dequantise
  simp only [hf, if_true, hres, hre]
  rcases hb : s.bias with _ | be
  · refine ⟨_, rfl, ?_, ?_, ?_⟩
    · simp only
      rw [hmule]
      exact ofBits_toBits_rmv _ hg _ _ (mul_nonneg hn0 hr.le) h1'
    · simpa [dx, dy] using hmulv
    · simp only
      rw [hmule]
      by_cases hneg : (sv : ℚ) < 0
      · have hne : sv ≠ 0 := by rintro rfl; simp at hneg
        have h1n : (1 : ℚ) ≤ ((sv.natAbs : ℕ) : ℚ) := by
          have : 1 ≤ sv.natAbs := Int.natAbs_pos.mpr hne
          exact_mod_cast this
        have hge : pow2 (fmtOf s.dt).emin ≤ ((sv.natAbs : ℕ) : ℚ) * r := by nlinarith
        exact isNegZero_fin_of_pos _ (rmv_pos (fmtOf s.dt) hp1 hge)
      · rw [decide_eq_false hneg]; rfl
  · obtain ⟨hbe, hb0⟩ := hbias be hb
    simp only [hb, Option.isSome_some, forall_const] at hbk h2 ⊢
    have hk0 : (0 : ℚ) ≤ (sv : ℚ) * r := mul_nonneg (by exact_mod_cast hbk) hr.le
    have hdy0 : 0 ≤ dy (fmtOf s.dt) r sv := rnd_nonneg _ hk0
    have hs0 : 0 ≤ dy (fmtOf s.dt) r sv + b := add_nonneg hdy0 hb0
    have hadd := add_fin_false (fmtOf s.dt) hmulv hs0 h2
    rw [hbe]
    refine ⟨_, rfl, ?_, ?_, ?_⟩
    · rw [hadd]
      have := h2; unfold NoOvf at this; rw [abs_of_nonneg hs0] at this
      exact ofBits_toBits_rmv _ hg _ _ hs0 this
    · rw [hadd]
      simp only [dx, if_true]
      rw [rnd_of_nonneg _ hs0]
      exact val_fin_false (rmv_nonneg _ hs0)
    · rw [hadd]; rfl

/-- C08 (a),(b) for float fields -/
theorem flt_roundtrip (cfg : Cfg) (s : DfSpec) (sv : Int) (hf : s.dt.isFloat = true)
    (hbas : wfBasic s = true) (hw : wfFlt s = true) (hr : InRange s sv) :
    ∃ bits, dequantise cfg s sv = .ok (.flt bits) ∧
      quantise s (.flt bits) = .ok (Bits.ofInt s.it.w sv) ∧
      (ofBits (fmtOf s.dt) bits).isFinite = true ∧
      (ofBits (fmtOf s.dt) bits).isNegZero = false := by
  obtain ⟨re, r, b, ok⟩ := wfFlt_spec hw
  have nok := ok.numOK
  obtain ⟨hl1, hlw⟩ := wfBasic_spec hbas
  have hK := inRange_abs hl1 hr
  have hbias : ∀ be, s.bias = some be → evalF (fmtOf s.dt) be = .fin false b ∧ 0 ≤ b :=
    fun be h => ⟨(ok.bias_some be h).1, nok.b_nonneg⟩
  have hb0 : s.bias.isSome = false → b = 0 := by
    intro h; exact ok.bias_none (Option.isSome_eq_false_iff.mp h |> Option.isNone_iff_eq_none.mp)
  have hsvp : sv.natAbs < 2 ^ (fmtOf s.dt).p :=
    lt_of_le_of_lt (inRange_natAbs hl1 hr) (Nat.pow_lt_pow_right (by norm_num) ok.len_lt)
  have hbk : s.bias.isSome = true → 0 ≤ sv := by
    intro h
    obtain ⟨be, hbe⟩ := Option.isSome_iff_exists.mp h
    exact inRange_u_nonneg (ok.bias_some be hbe).2 hr
  obtain ⟨no1, no2, e1, a1, e2, a2⟩ := deq_chain nok s.bias.isSome hb0 sv hK
  obtain ⟨X, hdq, hrt, hXv, hnz⟩ := dequantise_flt cfg s hf re r b ok.res_eq ok.res_val nok.r_pos
    nok.r_norm hbias sv hsvp hbk no1 (fun _ => no2)
  obtain ⟨n3, n4, n5, hk⟩ := enc_chain nok s.bias.isSome hb0 sv hK _ _ e1 e2 a2
  refine ⟨_, hdq, ?_, ?_, ?_⟩
  · have hv : (ofBits (fmtOf s.dt) (toBits (fmtOf s.dt) X)).Val
        (dx (fmtOf s.dt) s.bias.isSome r b sv) := by rw [hrt]; exact hXv
    have hge : s.bias.isSome = true → b ≤ dx (fmtOf s.dt) s.bias.isSome r b sv := by
      intro h
      have hsv0 := hbk h
      have hk0 : (0 : ℚ) ≤ (sv : ℚ) * r := mul_nonneg (by exact_mod_cast hsv0) nok.r_pos.le
      have hdy0 : 0 ≤ dy (fmtOf s.dt) r sv := rnd_nonneg _ hk0
      have hp1 : 1 ≤ (fmtOf s.dt).p := by have := (good_fmtOf s.dt).p_ge; omega
      -- b is a float: b = rnd b ≤ rnd (dy + b)
      obtain ⟨be, hbe⟩ := Option.isSome_iff_exists.mp h
      simp only [dx, h, if_true]
      have := rnd_mono (fmtOf s.dt) hp1 (show b ≤ dy (fmtOf s.dt) r sv + b by linarith)
      rwa [rnd_of_nonneg _ nok.b_nonneg, nok.b_rep] at this
    rw [quantise_flt s hf re r b ok.res_eq ok.res_val nok.r_pos ok.round_eq hbias _ _ hv hge
      (fun _ => n3) n4 n5, hk]
    obtain ⟨c1, c2⟩ := inRange_carrier hbas hr
    rw [clampI_of_mem c1 c2]
  · rw [hrt]; exact hXv.isFinite
  · rw [hrt]; exact hnz

end Rtcm.DfLaws
