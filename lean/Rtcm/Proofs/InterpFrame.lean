import Rtcm.Proofs.Bits
import Rtcm.Proofs.InterpLen
/-!
# Encoders only write at or after their cursor (helper lemmas for C15 `count_on_wire`)

Core Lean only.
* `Bits.put_below`: a successful `put` at cursor `off` advances the cursor to `off + len` and leaves
  every bit `g < off` unchanged — unconditionally (no hypothesis on `len`, the carrier, the value,
  the bytes or the build profile): bytes before `off / 8` are copied, and in byte `off / 8` the
  mask of loop index 0 is `0xff >> (off % 8)` (possibly narrowed further);
* `PutInv R`: a relation between cursors that is reflexive, transitive and holds across every
  successful `put`; `encFrag_rel`: it then holds across every encoder of the interpreter
  (`Df.encode`, strings, text, bias lists, MSM, and `encFrag`/`encFields`/`encRepeat` by mutual
  induction);
* instance `Below c c'`: `c.off ≤ c'.off`, same buffer length, and every bit below `c.off` unchanged.
-/
namespace Rtcm
namespace Bits

theorem setup_fields {cfg : Cfg} {off len : Nat} {s : Setup} (h : setup cfg off len = .ok s) :
    s.lhSt = off % 8 ∧ s.sti = off / 8 := by
  unfold setup at h
  obtain ⟨e, _, h⟩ := Res.bind_eq_ok h
  obtain ⟨d, _, h⟩ := Res.bind_eq_ok h
  simp only [Res.ok.injEq] at h
  subst h
  exact ⟨rfl, rfl⟩

/-- the mask of the first byte never selects a bit to the left of the cursor -/
theorem byteGeom_zero_mask {cfg : Cfg} {s : Setup} {bset nbits bpos : Nat}
    (h : byteGeom cfg s 0 = .ok (bset, nbits, bpos)) (t : Nat) (ht : 8 ≤ t + s.lhSt) :
    bset.testBit t = false := by
  unfold byteGeom at h
  simp only [if_true] at h
  obtain ⟨p, hp, h⟩ := Res.bind_eq_ok h
  obtain ⟨n, _, hp⟩ := Res.bind_eq_ok hp
  simp only [pure_eq_ok, Res.ok.injEq] at hp
  subst hp
  simp only [] at h
  obtain ⟨dl1, _, h⟩ := Res.bind_eq_ok h
  have hm : (255 &&& 255 >>> s.lhSt).testBit t = false := by
    simp only [Nat.testBit_and, Nat.testBit_shiftRight, testBit_255]
    have : ¬ (s.lhSt + t < 8) := by omega
    simp [this]
  split at h
  · obtain ⟨n2, _, h⟩ := Res.bind_eq_ok h
    simp only [pure_eq_ok, Res.ok.injEq, Prod.mk.injEq] at h
    rw [← h.1, Nat.testBit_and, hm, Bool.false_and]
  · simp only [pure_eq_ok, Res.ok.injEq, Prod.mk.injEq] at h
    rw [← h.1, hm]

theorem putStep_zero_keep {cfg : Cfg} {it : IT} {s : Setup} {value l d : Nat} {r : Nat × Nat}
    (h : putStep cfg it s value 0 l d = .ok r) (t : Nat) (ht8 : t < 8) (ht : 8 ≤ t + s.lhSt) :
    r.1.testBit t = d.testBit t := by
  unfold putStep at h
  obtain ⟨g, hg, h⟩ := Res.bind_eq_ok h
  obtain ⟨bset, nbits, bpos⟩ := g
  simp only [] at h
  obtain ⟨l2, _, h⟩ := Res.bind_eq_ok h
  obtain ⟨tval, _, h⟩ := Res.bind_eq_ok h
  simp only [Res.ok.injEq] at h
  subst h
  have hb := byteGeom_zero_mask hg t ht
  simp only [Nat.testBit_or, Nat.testBit_and, Nat.testBit_xor, testBit_255, hb, ht8, decide_true,
    Bool.true_xor, Bool.not_false, Bool.true_or, Bool.and_true, Bool.false_and, Bool.or_false]

theorem putLoop_zero_keep {cfg : Cfg} {it : IT} {s : Setup} {value l : Nat} {ds out : List Nat}
    (h : putLoop cfg it s value 0 l ds = .ok out) (t : Nat) (ht8 : t < 8) (ht : 8 ≤ t + s.lhSt) :
    (out.getD 0 0).testBit t = (ds.getD 0 0).testBit t := by
  cases ds with
  | nil =>
    simp only [putLoop, Res.ok.injEq] at h
    subst h; rfl
  | cons d ds =>
    unfold putLoop at h
    split at h
    · obtain ⟨r, hr, h⟩ := Res.bind_eq_ok h
      obtain ⟨rest, _, h⟩ := Res.bind_eq_ok h
      simp only [Res.ok.injEq] at h
      subst h
      simpa using putStep_zero_keep hr t ht8 ht
    · simp only [Res.ok.injEq] at h
      subst h; rfl

/-- a successful `put` advances the cursor by `len` and changes no bit before the cursor -/
theorem put_below {cfg : Cfg} {it : IT} {data : List Nat} {off v len : Nat} {d' : List Nat} {o : Nat}
    (h : put cfg it data off v len = .ok (d', o)) :
    o = off + len ∧ ∀ g, g < off → bitAt d' g = bitAt data g := by
  unfold put at h
  split at h
  · simp at h
  next hfit =>
  split at h
  · simp at h
  obtain ⟨value, _, h⟩ := Res.bind_eq_ok h
  obtain ⟨s, hs, h⟩ := Res.bind_eq_ok h
  obtain ⟨tail, ht, h⟩ := Res.bind_eq_ok h
  simp only [Res.ok.injEq, Prod.mk.injEq] at h
  obtain ⟨rfl, rfl⟩ := h
  obtain ⟨hlh, hsti⟩ := setup_fields hs
  refine ⟨rfl, ?_⟩
  intro g hg
  unfold bitAt
  have hle : s.sti ≤ data.length := by omega
  rw [getD_take_append_drop hle]
  split
  · rfl
  · next hge =>
    have e : g / 8 = s.sti := by omega
    rw [e, Nat.sub_self, putLoop_zero_keep ht (7 - g % 8) (by omega) (by omega)]
    congr 1
    simp [List.getD_eq_getElem?_getD]

theorem putStep_byte {cfg : Cfg} {it : IT} {s : Setup} {value i l d : Nat} {r : Nat × Nat}
    (h : putStep cfg it s value i l d = .ok r) (hd : d < 256) : r.1 < 256 := by
  unfold putStep at h
  obtain ⟨g, hg, h⟩ := Res.bind_eq_ok h
  obtain ⟨bset, nbits, bpos⟩ := g
  simp only [] at h
  obtain ⟨l2, _, h⟩ := Res.bind_eq_ok h
  obtain ⟨tval, _, h⟩ := Res.bind_eq_ok h
  simp only [Res.ok.injEq] at h
  subst h
  have e : (256 : Nat) = 2 ^ 8 := by decide
  simp only [valCast]
  rw [e]
  apply Nat.or_lt_two_pow
  · exact Nat.lt_of_le_of_lt Nat.and_le_left (e ▸ hd)
  · exact Nat.lt_of_le_of_lt Nat.and_le_right (Nat.mod_lt _ (by decide))

theorem putLoop_bytes (cfg : Cfg) (it : IT) (s : Setup) (value : Nat) :
    ∀ (ds : List Nat) (i lenlft : Nat) (out : List Nat),
      putLoop cfg it s value i lenlft ds = .ok out → (∀ d ∈ ds, d < 256) → ∀ d ∈ out, d < 256 := by
  intro ds
  induction ds with
  | nil =>
    intro i l out h _
    simp only [putLoop, Res.ok.injEq] at h
    subst h; simp
  | cons d ds ih =>
    intro i l out h hb
    unfold putLoop at h
    split at h
    · obtain ⟨r, hr, h⟩ := Res.bind_eq_ok h
      obtain ⟨rest, hrest, h⟩ := Res.bind_eq_ok h
      simp only [Res.ok.injEq] at h
      subst h
      intro x hx
      rcases List.mem_cons.1 hx with rfl | hx
      · exact putStep_byte hr (hb d (by simp))
      · exact ih _ _ _ hrest (fun y hy => hb y (by simp [hy])) x hx
    · simp only [Res.ok.injEq] at h
      subst h; exact hb

/-- a successful `put` keeps every byte a byte — unconditionally -/
theorem put_bytes {cfg : Cfg} {it : IT} {data : List Nat} {off v len : Nat} {d' : List Nat} {o : Nat}
    (h : put cfg it data off v len = .ok (d', o)) (hdata : ∀ d ∈ data, d < 256) : ∀ d ∈ d', d < 256 := by
  unfold put at h
  split at h
  · simp at h
  split at h
  · simp at h
  obtain ⟨value, _, h⟩ := Res.bind_eq_ok h
  obtain ⟨s, hs, h⟩ := Res.bind_eq_ok h
  obtain ⟨tail, ht, h⟩ := Res.bind_eq_ok h
  simp only [Res.ok.injEq, Prod.mk.injEq] at h
  obtain ⟨rfl, rfl⟩ := h
  intro x hx
  rcases List.mem_append.1 hx with hx | hx
  · exact hdata x (List.mem_of_mem_take hx)
  · exact putLoop_bytes _ _ _ _ _ _ _ _ ht (fun y hy => hdata y (List.mem_of_mem_drop hy)) x hx

end Bits

/-- a relation between writer states that every successful `put` establishes -/
structure PutInv (R : Cur → Cur → Prop) : Prop where
  refl : ∀ c, R c c
  trans : ∀ {a b c}, R a b → R b c → R a c
  put : ∀ (cfg : Cfg) (it : Bits.IT) (c : Cur) (v len : Nat) (d : List Nat) (o : Nat),
    Bits.put cfg it c.data c.off v len = .ok (d, o) → R c { data := d, off := o }

/-- same length, cursor not moved back, bits before the old cursor untouched -/
def Below (c c' : Cur) : Prop :=
  c'.data.length = c.data.length ∧ c.off ≤ c'.off ∧ ∀ g, g < c.off → Bits.bitAt c'.data g = Bits.bitAt c.data g

theorem below_putInv : PutInv Below where
  refl := fun c => ⟨rfl, Nat.le_refl _, fun _ _ => rfl⟩
  trans := fun ⟨l1, o1, b1⟩ ⟨l2, o2, b2⟩ =>
    ⟨l2.trans l1, Nat.le_trans o1 o2, fun g hg => (b2 g (by omega)).trans (b1 g hg)⟩
  put := fun cfg it c v len d o h => by
    obtain ⟨ho, hb⟩ := Bits.put_below h
    exact ⟨Bits.put_length h, by simp only [ho]; omega, hb⟩

/-- if the old buffer consists of bytes, so does the new one -/
def Bytes (c c' : Cur) : Prop := (∀ d ∈ c.data, d < 256) → ∀ d ∈ c'.data, d < 256

theorem bytes_putInv : PutInv Bytes where
  refl := fun _ h => h
  trans := fun h1 h2 h => h2 (h1 h)
  put := fun _ _ _ _ _ _ _ h hd => Bits.put_bytes h hd

section Rel
variable {R : Cur → Cur → Prop} (hR : PutInv R)
include hR

namespace Text

theorem putU_rel {cfg : Cfg} {w v len : Nat} {c c' : Cur} (h : putU cfg w v len c = .ok c') : R c c' := by
  unfold putU at h
  split at h
  · next d o hp =>
    simp only [Res.ok.injEq] at h
    subst h
    exact hR.put _ _ _ _ _ _ _ hp
  · simp at h
  · simp at h

theorem putBytes_rel (cfg : Cfg) : ∀ (bs : List Nat) (c c' : Cur), putBytes cfg bs c = .ok c' → R c c' := by
  intro bs
  induction bs with
  | nil => intro c c' h; simp only [putBytes, Res.ok.injEq] at h; subst h; exact hR.refl _
  | cons b bs ih =>
    intro c c' h
    unfold putBytes at h
    split at h
    · next c1 h1 => exact hR.trans (putU_rel hR h1) (ih _ _ h)
    · simp at h
    · simp at h

theorem strEncode_rel {cfg : Cfg} {lenBits : Nat} {bytes : List Nat} {c c' : Cur}
    (h : strEncode cfg lenBits bytes c = .ok c') : R c c' := by
  unfold strEncode at h
  split at h
  · next c1 h1 => exact hR.trans (putU_rel hR h1) (putBytes_rel hR _ _ _ _ h)
  · simp at h
  · simp at h

theorem text1029Encode_rel {cfg : Cfg} {bytes : List Nat} {c c' : Cur}
    (h : text1029Encode cfg bytes c = .ok c') : R c c' := by
  unfold text1029Encode at h
  simp only [] at h
  split at h
  · simp at h
  split at h
  · next c1 h1 =>
    split at h
    · next c2 h2 =>
      exact hR.trans (putU_rel hR h1) (hR.trans (putU_rel hR h2) (putBytes_rel hR _ _ _ _ h))
    · simp at h
    · simp at h
  · simp at h
  · simp at h

end Text

namespace Df

theorem encode_rel {cfg : Cfg} {s : Schema.DfSpec} {toks : List Tok} {c c' : Cur} {ts' : List Tok}
    (h : Df.encode cfg s toks c = .ok (c', ts')) : R c c' := by
  unfold Df.encode at h
  simp only [] at h
  repeat' split at h
  all_goals first
    | (simp at h; done)
    | (simp only [Res.ok.injEq, Prod.mk.injEq] at h
       obtain ⟨h, _⟩ := h
       subst h
       exact hR.put _ _ _ _ _ _ _ ‹_›)

end Df

namespace Msm
open Rtcm.Text

theorem encColumn_rel (cfg : Cfg) (s : Schema.DfSpec) (j : Nat) :
    ∀ (rows : List (List (List Tok))) (c c' : Cur), encColumn cfg s j rows c = .ok c' → R c c' := by
  intro rows
  induction rows with
  | nil => intro c c' h; simp only [encColumn, Res.ok.injEq] at h; subst h; exact hR.refl _
  | cons r rows ih =>
    intro c c' h
    unfold encColumn at h
    split at h
    · next c1 _ h1 => exact hR.trans (Df.encode_rel hR h1) (ih _ _ h)
    · simp at h
    · simp at h

theorem encColumns_rel (cfg : Cfg) (rows : List (List (List Tok))) :
    ∀ (fs : List (String × Schema.DfSpec)) (j : Nat) (c c' : Cur),
      encColumns cfg rows j fs c = .ok c' → R c c' := by
  intro fs
  induction fs with
  | nil => intro j c c' h; simp only [encColumns, Res.ok.injEq] at h; subst h; exact hR.refl _
  | cons f fs ih =>
    intro j c c' h
    obtain ⟨nm, s⟩ := f
    unfold encColumns at h
    split at h
    · next c1 h1 => exact hR.trans (encColumn_rel hR _ _ _ _ _ _ h1) (ih _ _ _ h)
    · simp at h
    · simp at h

theorem encode_rel {cfg : Cfg} {tbl : Schema.SigTable} {satFields sigFields : List (String × Schema.DfSpec)}
    {sats : List SatRow} {sigs : List SigRow} {c c' : Cur}
    (h : Msm.encode cfg tbl satFields sigFields sats sigs c = .ok c') : R c c' := by
  unfold Msm.encode at h
  split at h
  · split at h
    · next c1 h1 => exact hR.trans (putU_rel hR h1) (putU_rel hR h)
    · simp at h
    · simp at h
  · split at h
    · next c1 h1 =>
      split at h
      · next c2 h2 =>
        split at h
        · next c3 h3 =>
          simp only [] at h
          split at h
          · next c4 h4 =>
            exact hR.trans (putU_rel hR h1) (hR.trans (putU_rel hR h2) (hR.trans (putU_rel hR h3)
              (hR.trans (encColumns_rel hR _ _ _ _ _ _ h4) (encColumns_rel hR _ _ _ _ _ _ h))))
          · simp at h
          · simp at h
        · simp at h
        · simp at h
      · simp at h
      · simp at h
    · simp at h
    · simp at h
  · simp at h
  · simp at h

end Msm

namespace Bias
open Rtcm.Text

theorem putI16_rel {cfg : Cfg} {v len : Nat} {c c' : Cur} (h : putI16 cfg v len c = .ok c') : R c c' := by
  unfold putI16 at h
  split at h
  · next d o hp =>
    simp only [Res.ok.injEq] at h
    subst h
    exact hR.put _ _ _ _ _ _ _ hp
  · simp at h
  · simp at h

theorem encEntries_rel (cfg : Cfg) (p : Params) : ∀ (es : List Entry) (c c' : Cur),
    encEntries cfg p es c = .ok c' → R c c' := by
  intro es
  induction es with
  | nil => intro c c' h; simp only [encEntries, Res.ok.injEq] at h; subst h; exact hR.refl _
  | cons e es ih =>
    intro c c' h
    unfold encEntries at h
    split at h
    · split at h
      · next c1 h1 =>
        split at h
        · next c2 h2 => exact hR.trans (putU_rel hR h1) (hR.trans (putI16_rel hR h2) (ih _ _ h))
        · simp at h
        · simp at h
      · simp at h
      · simp at h
    · exact ih _ _ h

theorem encSats_rel (cfg : Cfg) (p : Params) (v : List Entry) : ∀ (ss : List Nat) (c c' : Cur),
    encSats cfg p v ss c = .ok c' → R c c' := by
  intro ss
  induction ss with
  | nil => intro c c' h; simp only [encSats, Res.ok.injEq] at h; subst h; exact hR.refl _
  | cons s ss ih =>
    intro c c' h
    unfold encSats at h
    split at h
    · next c1 h1 =>
      simp only [] at h
      split at h
      · simp at h
      split at h
      · next c2 h2 =>
        split at h
        · next c3 h3 =>
          exact hR.trans (putU_rel hR h1) (hR.trans (putU_rel hR h2)
            (hR.trans (encEntries_rel hR _ _ _ _ _ h3) (ih _ _ h)))
        · simp at h
        · simp at h
      · simp at h
      · simp at h
    · simp at h
    · simp at h

theorem encode_rel {cfg : Cfg} {p : Params} {v : List Entry} {c c' : Cur}
    (h : Bias.encode cfg p v c = .ok c') : R c c' := by
  unfold Bias.encode at h
  split at h
  · simp at h
  simp only [] at h
  split at h
  · simp at h
  split at h
  · next c1 h1 => exact hR.trans (putU_rel hR h1) (encSats_rel hR _ _ _ _ _ _ h)
  · simp at h
  · simp at h

theorem enc1230Biases_rel (cfg : Cfg) : ∀ (es : List Entry) (c c' : Cur),
    enc1230Biases cfg es c = .ok c' → R c c' := by
  intro es
  induction es with
  | nil => intro c c' h; simp only [enc1230Biases, Res.ok.injEq] at h; subst h; exact hR.refl _
  | cons e es ih =>
    intro c c' h
    unfold enc1230Biases at h
    split at h
    · next c1 h1 => exact hR.trans (putI16_rel hR h1) (ih _ _ h)
    · simp at h
    · simp at h

theorem encode1230_rel {cfg : Cfg} {gloTbl : Schema.SigTable} {v : List Entry} {c c' : Cur}
    (h : Bias.encode1230 cfg gloTbl v c = .ok c') : R c c' := by
  unfold Bias.encode1230 at h
  simp only [] at h
  split at h
  · simp at h
  split at h
  · split at h
    · next c1 h1 => exact hR.trans (putU_rel hR h1) (enc1230Biases_rel hR _ _ _ _ h)
    · simp at h
    · simp at h
  · simp at h
  · simp at h

end Bias

namespace Interp
open Rtcm.Schema Rtcm.Text

theorem encRepeat_rel {f : Enc} (hf : ∀ ts c c' ts', f ts c = .ok (c', ts') → R c c') :
    ∀ (n : Nat) (ts : List Tok) (c c' : Cur) (ts' : List Tok),
      encRepeat f n ts c = .ok (c', ts') → R c c' := by
  intro n
  induction n with
  | zero =>
    intro ts c c' ts' h
    simp only [encRepeat, Res.ok.injEq, Prod.mk.injEq] at h
    rw [← h.1]; exact hR.refl _
  | succ n ih =>
    intro ts c c' ts' h
    unfold encRepeat at h
    split at h
    · next c1 ts1 h1 => exact hR.trans (hf _ _ _ _ h1) (ih _ _ _ _ h)
    · simp at h
    · simp at h

mutual
theorem encFrag_rel (cfg : Cfg) (glo : SigTable) : ∀ (f : Frag) (ts : List Tok) (c c' : Cur) (ts' : List Tok),
    encFrag cfg glo f ts c = .ok (c', ts') → R c c'
  | .df s, ts, c, c', ts', h => by
    unfold encFrag at h
    exact Df.encode_rel hR h
  | .str cap lenBits, ts, c, c', ts', h => by
    unfold encFrag at h
    split at h
    · split at h
      · simp at h
      · obtain ⟨c1, h1, h2⟩ := lift_ok h
        simp only [Res.ok.injEq, Prod.mk.injEq] at h2
        rw [← h2.1]
        exact strEncode_rel hR h1
    · simp at h
  | .text1029, ts, c, c', ts', h => by
    unfold encFrag at h
    split at h
    · split at h
      · simp at h
      · obtain ⟨c1, h1, h2⟩ := lift_ok h
        simp only [Res.ok.injEq, Prod.mk.injEq] at h2
        rw [← h2.1]
        exact text1029Encode_rel hR h1
    · simp at h
  | .bias1059 cap tbl, ts, c, c', ts', h => by
    unfold encFrag at h
    split at h
    · split at h
      · simp at h
      · split at h
        · obtain ⟨c1, h1, h2⟩ := lift_ok h
          simp only [Res.ok.injEq, Prod.mk.injEq] at h2
          rw [← h2.1]
          exact Bias.encode_rel hR h1
        · simp at h
    · simp at h
  | .bias1065 cap tbl, ts, c, c', ts', h => by
    unfold encFrag at h
    split at h
    · split at h
      · simp at h
      · split at h
        · obtain ⟨c1, h1, h2⟩ := lift_ok h
          simp only [Res.ok.injEq, Prod.mk.injEq] at h2
          rw [← h2.1]
          exact Bias.encode_rel hR h1
        · simp at h
    · simp at h
  | .bias1230, ts, c, c', ts', h => by
    unfold encFrag at h
    split at h
    · split at h
      · simp at h
      · split at h
        · obtain ⟨c1, h1, h2⟩ := lift_ok h
          simp only [Res.ok.injEq, Prod.mk.injEq] at h2
          rw [← h2.1]
          exact Bias.encode1230_rel hR h1
        · simp at h
    · simp at h
  | .seq fs, ts, c, c', ts', h => by
    unfold encFrag at h
    exact encFields_rel cfg glo fs ts c c' ts' h
  | .lenMiddle f1 lenDf f2 elem cap, ts, c, c', ts', h => by
    unfold encFrag at h
    split at h
    · next c1 ts1 h1 =>
      split at h
      · split at h
        · simp at h
        · split at h
          · next c2 _ h2 =>
            split at h
            · next c3 ts3 h3 =>
              exact hR.trans (encFields_rel cfg glo f1 _ _ _ _ h1) (hR.trans (Df.encode_rel hR h2)
                (hR.trans (encFields_rel cfg glo f2 _ _ _ _ h3)
                  (encRepeat_rel hR (encFrag_rel cfg glo elem) _ _ _ _ _ h)))
            · simp at h
            · simp at h
          · simp at h
          · simp at h
      · simp at h
    · simp at h
    · simp at h
  | .vecWithLen elem cap lenBits, ts, c, c', ts', h => by
    unfold encFrag at h
    split at h
    · split at h
      · simp at h
      · split at h
        · next d o hp =>
          exact hR.trans (hR.put _ _ _ _ _ _ _ hp) (encRepeat_rel hR (encFrag_rel cfg glo elem) _ _ _ _ _ h)
        · simp at h
        · simp at h
    · simp at h
  | .grid16 elem, ts, c, c', ts', h => by
    unfold encFrag at h
    exact encRepeat_rel hR (encFrag_rel cfg glo elem) _ _ _ _ _ h
  | .msm tbl satFields sigFields, ts, c, c', ts', h => by
    unfold encFrag at h
    split at h
    · split at h
      · simp at h
      · split at h
        · split at h
          · simp at h
          · split at h
            · obtain ⟨c1, h1, h2⟩ := lift_ok h
              simp only [Res.ok.injEq, Prod.mk.injEq] at h2
              rw [← h2.1]
              exact Msm.encode_rel hR h1
            · simp at h
        · simp at h
    · simp at h
theorem encFields_rel (cfg : Cfg) (glo : SigTable) : ∀ (fs : Fields) (ts : List Tok) (c c' : Cur) (ts' : List Tok),
    encFields cfg glo fs ts c = .ok (c', ts') → R c c'
  | .nil, ts, c, c', ts', h => by
    unfold encFields at h
    simp only [Res.ok.injEq, Prod.mk.injEq] at h
    rw [← h.1]; exact hR.refl _
  | .cons _ f rest, ts, c, c', ts', h => by
    unfold encFields at h
    split at h
    · next c1 ts1 h1 =>
      exact hR.trans (encFrag_rel cfg glo f _ _ _ _ h1) (encFields_rel cfg glo rest _ _ _ _ h)
    · simp at h
    · simp at h
end

end Interp
end Rel

namespace Interp
open Rtcm.Schema

/-- every fragment encoder writes only at or after its cursor -/
theorem encFrag_below {cfg : Cfg} {glo : SigTable} {f : Frag} {ts ts' : List Tok} {c c' : Cur}
    (h : encFrag cfg glo f ts c = .ok (c', ts')) : Below c c' :=
  encFrag_rel below_putInv cfg glo f ts c c' ts' h

/-- every fragment encoder keeps bytes bytes -/
theorem encFrag_bytes {cfg : Cfg} {glo : SigTable} {f : Frag} {ts ts' : List Tok} {c c' : Cur}
    (h : encFrag cfg glo f ts c = .ok (c', ts')) (hd : ∀ d ∈ c.data, d < 256) : ∀ d ∈ c'.data, d < 256 :=
  encFrag_rel bytes_putInv cfg glo f ts c c' ts' h hd

theorem encFields_below {cfg : Cfg} {glo : SigTable} {fs : Fields} {ts ts' : List Tok} {c c' : Cur}
    (h : encFields cfg glo fs ts c = .ok (c', ts')) : Below c c' :=
  encFields_rel below_putInv cfg glo fs ts c c' ts' h

theorem encFields_bytes {cfg : Cfg} {glo : SigTable} {fs : Fields} {ts ts' : List Tok} {c c' : Cur}
    (h : encFields cfg glo fs ts c = .ok (c', ts')) (hd : ∀ d ∈ c.data, d < 256) : ∀ d ∈ c'.data, d < 256 :=
  encFields_rel bytes_putInv cfg glo fs ts c c' ts' h hd

theorem encRepeat_below {cfg : Cfg} {glo : SigTable} {f : Frag} {n : Nat} {ts ts' : List Tok} {c c' : Cur}
    (h : encRepeat (encFrag cfg glo f) n ts c = .ok (c', ts')) : Below c c' :=
  encRepeat_rel below_putInv (fun _ _ _ _ h => encFrag_below h) n ts c c' ts' h

end Interp

namespace Bits

theorem fieldValue_congr {a b : List Nat} {off len : Nat}
    (h : ∀ g, off ≤ g → g < off + len → bitAt a g = bitAt b g) :
    fieldValue a off len = fieldValue b off len := by
  apply Nat.eq_of_testBit_eq
  intro m
  rw [testBit_fieldValue, testBit_fieldValue]
  by_cases hm : m < len
  · rw [h _ (by omega) (by omega)]
  · simp [hm]

end Bits
end Rtcm
