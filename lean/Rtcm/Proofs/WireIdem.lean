import Rtcm.Proofs.Bits
/-!
# What is read from the wire writes the same wire bits

`readValue` (decode side) followed by `wireValue` (encode side) is the identity on every `len`-bit
wire value the encoder can have produced (every value for U / I fields; every value except the
sign-magnitude "negative zero" `2^(len-1)`, which `wireValue` never produces).  Core Lean only.
-/
namespace Rtcm.Bits

theorem ofInt_lt' (w : Nat) (z : Int) : ofInt w z < 2 ^ w := by
  unfold ofInt
  have hp : (0 : Int) < ((2 ^ w : Nat) : Int) := by exact_mod_cast Nat.two_pow_pos w
  have h1 := Int.emod_nonneg z (Int.ne_of_gt hp)
  have h2 := Int.emod_lt_of_pos z hp
  omega

theorem ofInt_toInt {w x : Nat} (hx : x < 2 ^ w) : ofInt w (toInt w x) = x := by
  unfold toInt ofInt
  have hp : (0 : Int) < ((2 ^ w : Nat) : Int) := by exact_mod_cast Nat.two_pow_pos w
  split
  · rw [Int.emod_eq_of_lt (by omega) (by omega)]
    omega
  · rw [Int.sub_emod_right, Int.emod_eq_of_lt (by omega) (by omega)]
    omega

/-- two byte buffers with the same bits are equal -/
theorem bytes_ext {a b : List Nat} (hl : a.length = b.length) (ha : ∀ d ∈ a, d < 256)
    (hb : ∀ d ∈ b, d < 256) (h : ∀ g, bitAt a g = bitAt b g) : a = b := by
  apply List.ext_getElem hl
  intro j h1 h2
  apply Nat.eq_of_testBit_eq
  intro t
  by_cases ht : t < 8
  · have := h (8 * j + (7 - t))
    unfold bitAt at this
    have e1 : (8 * j + (7 - t)) / 8 = j := by omega
    have e2 : 7 - (8 * j + (7 - t)) % 8 = t := by omega
    rw [e1, e2] at this
    simpa [List.getD_eq_getElem?_getD, List.getElem?_eq_getElem h1, List.getElem?_eq_getElem h2] using this
  · rw [testBit_false_of_lt_256 (ha _ (List.getElem_mem h1)) (by omega),
      testBit_false_of_lt_256 (hb _ (List.getElem_mem h2)) (by omega)]

theorem readValue_lt (it : IT) {len x : Nat} (h1 : 1 ≤ len) (hlw : len ≤ it.w) (hx : x < 2 ^ len) :
    readValue it len x < 2 ^ it.w := by
  obtain ⟨kind, w⟩ := it
  simp only at hlw
  have hLW : 2 ^ len ≤ 2 ^ w := Nat.pow_le_pow_right (by decide) hlw
  have hW := Nat.two_pow_pos w
  cases kind
  · simp only [readValue]; omega
  · simp only [readValue]
    split <;> omega
  · simp only [readValue]
    split
    · unfold negW; exact Nat.mod_lt _ hW
    · omega

/-- the wire values `wireValue` produces: never the sign-magnitude negative zero -/
theorem wireValue_ne_negZero (it : IT) {len : Nat} (h1 : 1 ≤ len) (v : Nat) (hk : it.kind = .sm) :
    wireValue it len v ≠ 2 ^ (len - 1) := by
  obtain ⟨kind, w⟩ := it
  simp only at hk
  subst hk
  have hL := two_pow_pred_add h1
  have hP := Nat.two_pow_pos (len - 1)
  simp only [wireValue]
  split
  · split <;> omega
  · next hb =>
    intro he
    have : (v % 2 ^ len).testBit (len - 1) = true := by
      rw [he]; exact Nat.testBit_two_pow_self
    rw [Nat.testBit_mod_two_pow] at this
    simp at this
    exact hb this.2

/-- reading a wire value and writing the result gives the wire value back -/
theorem wireValue_readValue (it : IT) {len x : Nat} (h1 : 1 ≤ len) (hlw : len ≤ it.w)
    (hx : x < 2 ^ len) (hnz : it.kind = .sm → x ≠ 2 ^ (len - 1)) :
    wireValue it len (readValue it len x) = x := by
  obtain ⟨kind, w⟩ := it
  simp only at hlw hnz
  have hL := two_pow_pred_add h1
  have hLW : 2 ^ len ≤ 2 ^ w := Nat.pow_le_pow_right (by decide) hlw
  have hP := Nat.two_pow_pos (len - 1)
  cases kind
  · simp only [readValue, wireValue, Nat.mod_eq_of_lt hx]
  · simp only [readValue, wireValue]
    split
    · have e : 2 ^ w - 2 ^ len = 2 ^ len * (2 ^ (w - len) - 1) := by
        have : 2 ^ w = 2 ^ len * 2 ^ (w - len) := by rw [← Nat.pow_add]; congr 1; omega
        rw [this, Nat.mul_sub, Nat.mul_one]
      rw [e, Nat.add_mul_mod_self_left, Nat.mod_eq_of_lt hx]
    · exact Nat.mod_eq_of_lt hx
  · have hnz' := hnz rfl
    simp only [readValue, wireValue]
    by_cases hb : x.testBit (len - 1) = true
    · rw [if_pos hb]
      have hge : 2 ^ (len - 1) ≤ x := by
        rcases Nat.lt_or_ge x (2 ^ (len - 1)) with h | h
        · rw [Nat.testBit_lt_two_pow h] at hb; cases hb
        · exact h
      have hm : x % 2 ^ (len - 1) = x - 2 ^ (len - 1) := by
        have : x = (x - 2 ^ (len - 1)) + 2 ^ (len - 1) := by omega
        rw [this, Nat.add_mod_right, Nat.mod_eq_of_lt (by omega)]
        omega
      rw [hm]
      have hm0 : 0 < x - 2 ^ (len - 1) := by omega
      have hmlt : x - 2 ^ (len - 1) < 2 ^ (len - 1) := by omega
      obtain ⟨m, hmdef⟩ : ∃ m, m = x - 2 ^ (len - 1) := ⟨_, rfl⟩
      rw [← hmdef] at hm0 hmlt ⊢
      have hle : 2 ^ (len - 1) ≤ 2 ^ w := by omega
      have e1 : negW w m = 2 ^ w - m := by unfold negW; exact Nat.mod_eq_of_lt (by omega)
      have e0 : (2 ^ w - m).testBit (len - 1) = true := by
        have e : 2 ^ w - m = 2 ^ w - ((m - 1) + 1) := by omega
        rw [e, Nat.testBit_two_pow_sub_succ (by omega), Nat.testBit_lt_two_pow (by omega)]
        simp; omega
      have e2 : negW w (2 ^ w - m) = m := by
        unfold negW
        rw [show 2 ^ w - (2 ^ w - m) = m from by omega]
        exact Nat.mod_eq_of_lt (by omega)
      rw [e1, if_pos e0]
      simp only [e2, Nat.mod_eq_of_lt hmlt]
      rw [if_neg (by omega)]
      omega
    · rw [if_neg hb, if_neg hb]
      exact Nat.mod_eq_of_lt hx

/-- what the decoder reads is stable under a write / read cycle, also for the sign-magnitude
negative zero (which reads as 0, is written as 0 and reads as 0 again) -/
theorem readValue_idem (it : IT) {len y : Nat} (h1 : 1 ≤ len) (hlw : len ≤ it.w) (hy : y < 2 ^ len) :
    readValue it len (wireValue it len (readValue it len y)) = readValue it len y := by
  by_cases hnz : it.kind = .sm ∧ y = 2 ^ (len - 1)
  · obtain ⟨kind, w⟩ := it
    simp only at hnz hlw
    obtain ⟨rfl, rfl⟩ := hnz
    have hP := Nat.two_pow_pos (len - 1)
    have e0 : readValue ⟨.sm, w⟩ len (2 ^ (len - 1)) = 0 := by
      simp only [readValue, Nat.testBit_two_pow_self, if_true, Nat.mod_self]
      unfold negW
      simp
    rw [e0]
    have e1 : wireValue ⟨.sm, w⟩ len 0 = 0 := by
      simp [wireValue]
    rw [e1]
    simp [readValue]
  · rw [wireValue_readValue it h1 hlw hy (fun hk he => hnz ⟨hk, he⟩)]

end Rtcm.Bits
