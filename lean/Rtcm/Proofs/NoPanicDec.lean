import Rtcm.Props.C07
import Rtcm.Props.C08
import Rtcm.Proofs.WFFrag
/-!
# Helper lemmas for C02: the body decoder never panics

`NP r` : the outcome `r` is not a panic. Ingredients, bottom up:
* `parse_total`: `Bits.parse` with `1 ≤ len ≤ w` answers `BufferOverflow` or succeeds with the
  specification value (`readValue` of the field's bits), whatever the offset and the buffer;
* `readValue_inRange`: that value is one of the carrier readings `DfWf.InRange` (for sign-magnitude
  fields the negative-zero pattern reads as 0);
* `dfDecode_total`: under `DfWf.wf`, `Df.decode` answers `BufferOverflow` or succeeds (the integer
  decode arithmetic stays inside the `dt`: `C08.df_value_roundtrip`);
* leaves: text, bias lists, MSM segment; combinators by mutual structural induction.
-/
namespace Rtcm.NoPanic
open Rtcm.Bits Rtcm.Schema Rtcm.Df Rtcm.DfWf Rtcm.Text Rtcm.Interp Rtcm.WF

/-- the outcome is not a panic -/
def NP {α} (r : Res α) : Prop := ∀ w, r ≠ .panic w

theorem NP.ok {α} (a : α) : NP (Res.ok a) := fun _ h => by cases h
theorem NP.err {α} (e : RtcmError) : NP (Res.err e : Res α) := fun _ h => by cases h
theorem NP.not_panic {α} {w : String} (h : NP (Res.panic w : Res α)) : False := h w rfl

/-! ### `Bits.parse` -/

theorem width_of_wfBasic {s : DfSpec} (h : wfBasic s = true) :
    8 ≤ s.it.w ∧ s.it.w ≤ 64 ∧ 1 ≤ s.len ∧ s.len ≤ s.it.w := by
  unfold wfBasic at h
  simp only [Bool.and_eq_true, Bool.or_eq_true, decide_eq_true_eq, beq_iff_eq] at h
  omega

/-- `Bits.parse` is total for `1 ≤ len ≤ w`: buffer overflow, or the specification value -/
theorem parse_total (cfg : Cfg) (it : IT) (data : List Nat) (off len : Nat)
    (hw8 : 8 ≤ it.w) (hw64 : it.w ≤ 64) (h1 : 1 ≤ len) (hlw : len ≤ it.w) :
    parse cfg it data off len = .err .bufferOverflow ∨
    parse cfg it data off len = .ok (readValue it len (fieldValue data off len), off + len) := by
  by_cases h : data.length * 8 < off + len
  · exact Or.inl (C07.parse_overflow_error cfg it data off len h)
  · exact Or.inr (C07.parse_bits cfg it data off len hw8 hw64 h1 hlw (by omega))

theorem parse_np (cfg : Cfg) (it : IT) (data : List Nat) (off len : Nat)
    (hw8 : 8 ≤ it.w) (hw64 : it.w ≤ 64) (h1 : 1 ≤ len) (hlw : len ≤ it.w) :
    NP (parse cfg it data off len) := by
  rcases parse_total cfg it data off len hw8 hw64 h1 hlw with h | h <;> rw [h]
  · exact NP.err _
  · exact NP.ok _

theorem parseU_np (cfg : Cfg) (w len : Nat) (c : Cur)
    (hw8 : 8 ≤ w) (hw64 : w ≤ 64) (h1 : 1 ≤ len) (hlw : len ≤ w) : NP (parseU cfg w len c) := by
  unfold parseU
  have h := parse_np cfg ⟨.u, w⟩ c.data c.off len hw8 hw64 h1 hlw
  rcases hp : parse cfg ⟨.u, w⟩ c.data c.off len with ⟨v, o⟩ | e | p
  · exact NP.ok _
  · exact NP.err _
  · rw [hp] at h; exact (h.not_panic).elim

/-! ### the reading of a `len`-bit field is in range -/

theorem readValue_inRange (s : DfSpec) (x : Nat) (h1 : 1 ≤ s.len) (hlw : s.len ≤ s.it.w)
    (hx : x < 2 ^ s.len) : InRange s (carrierVal s.it (readValue s.it s.len x)) := by
  obtain ⟨id, dt, ⟨kind, w⟩, len, res, bias, round, inv, cap⟩ := s
  simp only at h1 hlw hx
  have hL := two_pow_pred_add h1
  have hW := two_pow_pred_add (len := w) (by omega)
  have hle : 2 ^ (len - 1) ≤ 2 ^ (w - 1) := Nat.pow_le_pow_right (by decide) (by omega)
  have hLW : 2 ^ len ≤ 2 ^ w := Nat.pow_le_pow_right (by decide) hlw
  have hP := Nat.two_pow_pos (len - 1)
  have c1 : ((2 : Int) ^ len) = ((2 ^ len : Nat) : Int) := by simp
  have c2 : ((2 : Int) ^ (len - 1)) = ((2 ^ (len - 1) : Nat) : Int) := by simp
  unfold InRange svLo svHi carrierVal IT.signed readValue
  cases kind
  · simp only [c1]
    rw [if_neg (by decide)]
    omega
  · simp only [c2]
    rw [if_pos (by decide)]
    by_cases hb : x < 2 ^ (len - 1)
    · have e2 : x.testBit (len - 1) = false := Nat.testBit_lt_two_pow hb
      rw [if_neg (by simp [e2])]
      have : toInt w x = x := by unfold toInt; rw [if_pos (by omega)]
      rw [this]
      omega
    · have e2 : x.testBit (len - 1) = true := testBit_top (by omega) (by omega)
      by_cases hw : len = w
      · subst hw
        rw [if_neg (by simp)]
        have : toInt len x = (x : Int) - ((2 ^ len : Nat) : Int) := by
          unfold toInt; rw [if_neg (by omega)]
        rw [this]
        omega
      · have hlt : len ≤ w - 1 := by omega
        have hle2 : 2 ^ len ≤ 2 ^ (w - 1) := Nat.pow_le_pow_right (by decide) hlt
        rw [if_pos ⟨e2, hw⟩]
        have : toInt w (x + (2 ^ w - 2 ^ len)) = ((x + (2 ^ w - 2 ^ len) : Nat) : Int) - ((2 ^ w : Nat) : Int) := by
          unfold toInt; rw [if_neg (by omega)]
        rw [this]
        omega
  · simp only [c2]
    rw [if_pos (by decide)]
    by_cases hb : x < 2 ^ (len - 1)
    · have e2 : x.testBit (len - 1) = false := Nat.testBit_lt_two_pow hb
      rw [if_neg (by simp [e2])]
      have : toInt w x = x := by unfold toInt; rw [if_pos (by omega)]
      rw [this]
      omega
    · have e2 : x.testBit (len - 1) = true := testBit_top (by omega) (by omega)
      rw [if_pos e2]
      have hm := Nat.mod_lt x hP
      by_cases hz : x % 2 ^ (len - 1) = 0
      · have : negW w (x % 2 ^ (len - 1)) = 0 := by
          unfold negW; rw [hz]; simp
        have t0 : toInt w 0 = 0 := by unfold toInt; rw [if_pos (by omega)]; rfl
        rw [this, t0]
        omega
      · have e1 : negW w (x % 2 ^ (len - 1)) = 2 ^ w - x % 2 ^ (len - 1) := by
          unfold negW; exact Nat.mod_eq_of_lt (by omega)
        have : toInt w (2 ^ w - x % 2 ^ (len - 1))
            = ((2 ^ w - x % 2 ^ (len - 1) : Nat) : Int) - ((2 ^ w : Nat) : Int) := by
          unfold toInt; rw [if_neg (by omega)]
        rw [e1, this]
        omega

/-! ### `Df.decode` -/

/-- `Df.decode` of a well-formed field: buffer overflow, or success with the cursor advanced by `len` -/
theorem dfDecode_total (cfg : Cfg) (s : DfSpec) (c : Cur) (hw : wf s = true) :
    Df.decode cfg s c = .err .bufferOverflow ∨
    ∃ toks, Df.decode cfg s c = .ok (toks, { c with off := c.off + s.len }) := by
  obtain ⟨hw8, hw64, h1, hlw⟩ := width_of_wfBasic (C08.wf_wfBasic hw)
  rcases parse_total cfg s.it c.data c.off s.len hw8 hw64 h1 hlw with h | h
  · left
    unfold Df.decode
    rw [h]
  · right
    have hr := readValue_inRange s (fieldValue c.data c.off s.len) h1 hlw (fieldValue_lt _ _ _)
    obtain ⟨t, -, hd⟩ := C08.df_absent_unique cfg s c _ _ hw h hr
    exact ⟨_, hd⟩

theorem dfDecode_np (cfg : Cfg) (s : DfSpec) (c : Cur) (hw : wf s = true) :
    NP (Df.decode cfg s c) := by
  rcases dfDecode_total cfg s c hw with h | ⟨t, h⟩ <;> rw [h]
  · exact NP.err _
  · exact NP.ok _

/-! ### text -/

theorem parseBytes_np (cfg : Cfg) (n : Nat) (c : Cur) : NP (parseBytes cfg n c) := by
  induction n generalizing c with
  | zero => exact NP.ok _
  | succ n ih =>
    unfold parseBytes
    have h := parseU_np cfg 8 8 c (by omega) (by omega) (by omega) (by omega)
    split
    · next b c' _ =>
      have h2 := ih c'
      split
      · exact NP.ok _
      · exact NP.err _
      · next p hp => exact (h2 p hp).elim
    · exact NP.err _
    · next p hp => exact (h p hp).elim

theorem strDecode_np (cfg : Cfg) (cap lenBits : Nat) (c : Cur) (h1 : 1 ≤ lenBits) (h8 : lenBits ≤ 8) :
    NP (strDecode cfg cap lenBits c) := by
  unfold strDecode
  have h := parseU_np cfg 8 lenBits c (by omega) (by omega) h1 h8
  split
  · next len c' _ =>
    split
    · exact NP.err _
    · have h2 := parseBytes_np cfg len c'
      split
      · exact NP.ok _
      · exact NP.err _
      · next p hp => exact (h2 p hp).elim
  · exact NP.err _
  · next p hp => exact (h p hp).elim

theorem text1029Decode_np (cfg : Cfg) (c : Cur) : NP (text1029Decode cfg c) := by
  unfold text1029Decode
  have h := parseU_np cfg 8 7 c (by omega) (by omega) (by omega) (by omega)
  split
  · next x c1 _ =>
    have h2 := parseU_np cfg 8 8 c1 (by omega) (by omega) (by omega) (by omega)
    split
    · simp only []
      split
      · exact NP.err _
      · split
        · exact NP.ok _
        · exact NP.err _
    · exact NP.err _
    · next p hp => exact (h2 p hp).elim
  · exact NP.err _
  · next p hp => exact (h p hp).elim

/-! ### bias lists -/

theorem parseI16_np (cfg : Cfg) (len : Nat) (c : Cur) (h1 : 1 ≤ len) (h16 : len ≤ 16) :
    NP (Bias.parseI16 cfg len c) := by
  unfold Bias.parseI16
  have h := parse_np cfg ⟨.i, 16⟩ c.data c.off len (by decide) (by decide) h1 h16
  split
  · exact NP.ok _
  · exact NP.err _
  · next p hp => exact (h p hp).elim

theorem decBiases_np (cfg : Cfg) (p : Bias.Params) (sat n : Nat) (acc : List Bias.Entry) (c : Cur) :
    NP (Bias.decBiases cfg p sat n acc c) := by
  induction n generalizing acc c with
  | zero => exact NP.ok _
  | succ n ih =>
    unfold Bias.decBiases
    have h := parseU_np cfg 8 5 c (by omega) (by omega) (by omega) (by omega)
    split
    · next sid c1 _ =>
      split
      · have h2 := parseI16_np cfg 14 c1 (by omega) (by omega)
        split
        · split
          · exact NP.err _
          · exact ih _ _
        · exact NP.err _
        · next q hq => exact (h2 q hq).elim
      · exact ih _ _
    · exact NP.err _
    · next q hq => exact (h q hq).elim

theorem decSats_np (cfg : Cfg) (p : Bias.Params) (h1 : 1 ≤ p.satBits) (h8 : p.satBits ≤ 8)
    (n : Nat) (acc : List Bias.Entry) (c : Cur) : NP (Bias.decSats cfg p n acc c) := by
  induction n generalizing acc c with
  | zero => exact NP.ok _
  | succ n ih =>
    unfold Bias.decSats
    have h := parseU_np cfg 8 p.satBits c (by omega) (by omega) h1 h8
    split
    · next sat c1 _ =>
      have h2 := parseU_np cfg 8 5 c1 (by omega) (by omega) (by omega) (by omega)
      split
      · next num c2 _ =>
        have h3 := decBiases_np cfg p sat num acc c2
        split
        · exact ih _ _
        · exact NP.err _
        · next q hq => exact (h3 q hq).elim
      · exact NP.err _
      · next q hq => exact (h2 q hq).elim
    · exact NP.err _
    · next q hq => exact (h q hq).elim

theorem biasDecode_np (cfg : Cfg) (p : Bias.Params) (h1 : 1 ≤ p.satBits) (h8 : p.satBits ≤ 8)
    (c : Cur) : NP (Bias.decode cfg p c) := by
  unfold Bias.decode
  have h := parseU_np cfg 8 6 c (by omega) (by omega) (by omega) (by omega)
  split
  · exact decSats_np cfg p h1 h8 _ _ _
  · exact NP.err _
  · next q hq => exact (h q hq).elim

theorem dec1230Loop_np (cfg : Cfg) (mask : Nat) (l : List ((Nat × Nat) × Nat)) (c : Cur) :
    NP (Bias.dec1230Loop cfg mask l c) := by
  induction l generalizing c with
  | nil => exact NP.ok _
  | cons x l ih =>
    obtain ⟨⟨b, a⟩, bit⟩ := x
    unfold Bias.dec1230Loop
    split
    · have h := parseI16_np cfg 16 c (by omega) (by omega)
      split
      · next sv c1 _ =>
        have h2 := ih c1
        split
        · exact NP.ok _
        · exact NP.err _
        · next q hq => exact (h2 q hq).elim
      · exact NP.err _
      · next q hq => exact (h q hq).elim
    · exact ih c

theorem decode1230_np (cfg : Cfg) (c : Cur) : NP (Bias.decode1230 cfg c) := by
  unfold Bias.decode1230
  have h := parseU_np cfg 8 4 c (by omega) (by omega) (by omega) (by omega)
  split
  · exact dec1230Loop_np cfg _ _ _
  · exact NP.err _
  · next q hq => exact (h q hq).elim

/-! ### MSM segment -/

theorem decColumn_np (cfg : Cfg) (s : DfSpec) (hw : wf s = true) (n : Nat) (c : Cur) :
    NP (Msm.decColumn cfg s n c) := by
  induction n generalizing c with
  | zero => exact NP.ok _
  | succ n ih =>
    unfold Msm.decColumn
    have h := dfDecode_np cfg s c hw
    split
    · next t c' _ =>
      have h2 := ih c'
      split
      · exact NP.ok _
      · exact NP.err _
      · next q hq => exact (h2 q hq).elim
    · exact NP.err _
    · next q hq => exact (h q hq).elim

theorem decColumns_np (cfg : Cfg) (n : Nat) (fs : List (String × DfSpec)) (hw : wfSpecs fs = true)
    (c : Cur) : NP (Msm.decColumns cfg n fs c) := by
  induction fs generalizing c with
  | nil => exact NP.ok _
  | cons f fs ih =>
    obtain ⟨name, s⟩ := f
    unfold wfSpecs at hw ih
    simp only [List.all_cons, Bool.and_eq_true] at hw
    unfold Msm.decColumns
    have h := decColumn_np cfg s hw.1 n c
    split
    · next col c' _ =>
      have h2 := ih hw.2 c'
      split
      · exact NP.ok _
      · exact NP.err _
      · next q hq => exact (h2 q hq).elim
    · exact NP.err _
    · next q hq => exact (h q hq).elim

theorem lookupSigs_np (tbl : SigTable) (l : List (Nat × Nat)) : NP (Msm.lookupSigs tbl l) := by
  induction l with
  | nil => exact NP.ok _
  | cons x l ih =>
    obtain ⟨sat, sid⟩ := x
    unfold Msm.lookupSigs
    split
    · split
      · exact NP.ok _
      · exact NP.err _
      · next q hq => exact (ih q hq).elim
    · exact NP.err _

theorem msmDecode_np (cfg : Cfg) (tbl : SigTable) (satFields sigFields : List (String × DfSpec))
    (hsat : wfSpecs satFields = true) (hsig : wfSpecs sigFields = true) (c : Cur) :
    NP (Msm.decode cfg tbl satFields sigFields c) := by
  unfold Msm.decode
  have h := parseU_np cfg 64 64 c (by omega) (by omega) (by omega) (by omega)
  split
  · next satMask c1 _ =>
    have h2 := parseU_np cfg 32 32 c1 (by omega) (by omega) (by omega) (by omega)
    split
    · next sigMask c2 _ =>
      split
      · exact NP.ok _
      · simp only []
        split
        · exact NP.err _
        · next hlen =>
          have h3 := parseU_np cfg 64 (Msm.popcount 64 satMask * Msm.popcount 32 sigMask) c2
            (by omega) (by omega) (by omega) (by omega)
          split
          · next cellMask c3 _ =>
            have h4 := decColumns_np cfg (Msm.maskIds 64 satMask).length satFields hsat c3
            split
            · next satCols c4 _ =>
              have h5 := lookupSigs_np tbl
                (Msm.cellIds (Msm.maskIds 64 satMask) (Msm.maskIds 32 sigMask) cellMask)
              split
              · next cellSigs _ =>
                have h6 := decColumns_np cfg
                  (Msm.cellIds (Msm.maskIds 64 satMask) (Msm.maskIds 32 sigMask) cellMask).length
                  sigFields hsig c4
                split
                · exact NP.ok _
                · exact NP.err _
                · next q hq => exact (h6 q hq).elim
              · exact NP.err _
              · next q hq => exact (h5 q hq).elim
            · exact NP.err _
            · next q hq => exact (h4 q hq).elim
          · exact NP.err _
          · next q hq => exact (h3 q hq).elim
    · exact NP.err _
    · next q hq => exact (h2 q hq).elim
  · exact NP.err _
  · next q hq => exact (h q hq).elim

/-! ### combinators -/

theorem decRepeat_np (f : Dec) (hf : ∀ c, NP (f c)) (n : Nat) (c : Cur) : NP (decRepeat f n c) := by
  induction n generalizing c with
  | zero => exact NP.ok _
  | succ n ih =>
    unfold decRepeat
    split
    · next t c' _ =>
      have h2 := ih c'
      split
      · exact NP.ok _
      · exact NP.err _
      · next q hq => exact (h2 q hq).elim
    · exact NP.err _
    · next q hq => exact (hf c q hq).elim

/-- a `msg_len_middle!` count field decodes to exactly one integer token -/
theorem countDecode_shape (cfg : Cfg) (l : DfSpec) (c : Cur) (hc : wfCount l = true)
    (toks : List Tok) (c' : Cur) (h : Df.decode cfg l c = .ok (toks, c')) : ∃ n, toks = [.int n] := by
  unfold wfCount at hc
  simp only [Bool.and_eq_true, Bool.not_eq_true', Option.isNone_iff_eq_none] at hc
  obtain ⟨⟨⟨⟨-, hf⟩, hres⟩, hbias⟩, hinv⟩ := hc
  unfold Df.decode at h
  split at h
  · next p o _ =>
    unfold Df.dequantise at h
    simp only [hf, hres, hbias, hinv, Bool.false_eq_true, if_false] at h
    cases h
    exact ⟨_, rfl⟩
  · cases h
  · cases h

mutual
theorem decFrag_np (cfg : Cfg) : ∀ (f : Frag), WFFrag f = true → ∀ c, NP (decFrag cfg f c)
  | .df s, hw, c => by
    unfold WFFrag at hw
    unfold decFrag
    exact dfDecode_np cfg s c hw
  | .str cap lenBits, hw, c => by
    unfold WFFrag at hw
    simp only [Bool.and_eq_true, decide_eq_true_eq] at hw
    unfold decFrag
    have h := strDecode_np cfg cap lenBits c hw.1 hw.2
    split
    · exact NP.ok _
    · exact NP.err _
    · next q hq => exact (h q hq).elim
  | .text1029, _, c => by
    unfold decFrag
    have h := text1029Decode_np cfg c
    split
    · exact NP.ok _
    · exact NP.err _
    · next q hq => exact (h q hq).elim
  | .bias1059 cap tbl, _, c => by
    unfold decFrag
    have h := biasDecode_np cfg (params1059 cap tbl) (by show 1 ≤ 6; omega) (by show 6 ≤ 8; omega) c
    split
    · exact NP.ok _
    · exact NP.err _
    · next q hq => exact (h q hq).elim
  | .bias1065 cap tbl, _, c => by
    unfold decFrag
    have h := biasDecode_np cfg (params1065 cap tbl) (by show 1 ≤ 5; omega) (by show 5 ≤ 8; omega) c
    split
    · exact NP.ok _
    · exact NP.err _
    · next q hq => exact (h q hq).elim
  | .bias1230, _, c => by
    unfold decFrag
    have h := decode1230_np cfg c
    split
    · exact NP.ok _
    · exact NP.err _
    · next q hq => exact (h q hq).elim
  | .seq fs, hw, c => by
    unfold WFFrag at hw
    unfold decFrag
    exact decFields_np cfg fs hw c
  | .lenMiddle f1 l f2 e cap, hw, c => by
    unfold WFFrag at hw
    simp only [Bool.and_eq_true] at hw
    obtain ⟨⟨⟨h1, hl⟩, h2⟩, he⟩ := hw
    unfold decFrag
    have a1 := decFields_np cfg f1 h1 c
    split
    · next t1 c1 _ =>
      have hlw : wf l = true := by
        unfold wfCount at hl
        simp only [Bool.and_eq_true] at hl
        exact hl.1.1.1.1
      have a2 := dfDecode_np cfg l c1 hlw
      split
      · next n c2 _ =>
        have a3 := decFields_np cfg f2 h2 c2
        split
        · next t2 c3 _ =>
          split
          · exact NP.err _
          · have a4 := decRepeat_np (decFrag cfg e) (decFrag_np cfg e he) n.toNat c3
            split
            · exact NP.ok _
            · exact NP.err _
            · next q hq => exact (a4 q hq).elim
        · exact NP.err _
        · next q hq => exact (a3 q hq).elim
      · next x hne hx =>
        exfalso
        obtain ⟨toks, c2⟩ := x
        obtain ⟨n, rfl⟩ := countDecode_shape cfg l c1 hl toks c2 hx
        exact hne n c2 rfl
      · exact NP.err _
      · next q hq => exact (a2 q hq).elim
    · exact NP.err _
    · next q hq => exact (a1 q hq).elim
  | .vecWithLen e cap lenBits, hw, c => by
    unfold WFFrag at hw
    simp only [Bool.and_eq_true, decide_eq_true_eq] at hw
    obtain ⟨⟨h1, h16⟩, he⟩ := hw
    unfold decFrag
    have a1 := parse_np cfg ⟨.u, 16⟩ c.data c.off lenBits (by decide) (by decide) h1 h16
    split
    · next n o _ =>
      split
      · exact NP.err _
      · have a4 := decRepeat_np (decFrag cfg e) (decFrag_np cfg e he) n { c with off := o }
        split
        · exact NP.ok _
        · exact NP.err _
        · next q hq => exact (a4 q hq).elim
    · exact NP.err _
    · next q hq => exact (a1 q hq).elim
  | .grid16 e, hw, c => by
    unfold WFFrag at hw
    unfold decFrag
    exact decRepeat_np (decFrag cfg e) (decFrag_np cfg e hw) 16 c
  | .msm tbl sat sig, hw, c => by
    unfold WFFrag at hw
    simp only [Bool.and_eq_true] at hw
    unfold decFrag
    have h := msmDecode_np cfg tbl sat sig hw.1.2 hw.2 c
    split
    · exact NP.ok _
    · exact NP.err _
    · next q hq => exact (h q hq).elim
theorem decFields_np (cfg : Cfg) : ∀ (fs : Fields), WFFields fs = true → ∀ c, NP (decFields cfg fs c)
  | .nil, _, c => by
    unfold decFields
    exact NP.ok _
  | .cons _ f rest, hw, c => by
    unfold WFFields at hw
    simp only [Bool.and_eq_true] at hw
    unfold decFields
    have a1 := decFrag_np cfg f hw.1 c
    split
    · next t c' _ =>
      have a2 := decFields_np cfg rest hw.2 c'
      split
      · exact NP.ok _
      · exact NP.err _
      · next q hq => exact (a2 q hq).elim
    · exact NP.err _
    · next q hq => exact (a1 q hq).elim
end

/-! ### decoded floats are finite -/

open Rtcm.SoftFloat in
/-- all `.flt` tokens of a list are finite (no NaN, no infinity) in format `fmt` -/
def FinIn (fmt : SoftFloat.Fmt) (toks : List Tok) : Prop :=
  ∀ b, Tok.flt b ∈ toks → (SoftFloat.ofBits fmt b).isFinite = true

theorem FinIn.nil (fmt : SoftFloat.Fmt) : FinIn fmt [] := fun _ h => by cases h

theorem FinIn.append {fmt : SoftFloat.Fmt} {a b : List Tok} (ha : FinIn fmt a) (hb : FinIn fmt b) :
    FinIn fmt (a ++ b) := fun x hx => by
  rcases List.mem_append.mp hx with h | h
  · exact ha x h
  · exact hb x h

/-- every token a well-formed field decodes to is finite in the field's float format (an integer
field produces no `.flt` token at all) -/
theorem dfDecode_finite (cfg : Cfg) (s : DfSpec) (c : Cur) (hw : wf s = true)
    (toks : List Tok) (c' : Cur) (h : Df.decode cfg s c = .ok (toks, c')) :
    FinIn (fmtOf s.dt) toks := by
  obtain ⟨hw8, hw64, h1, hlw⟩ := width_of_wfBasic (C08.wf_wfBasic hw)
  rcases parse_total cfg s.it c.data c.off s.len hw8 hw64 h1 hlw with hp | hp
  · unfold Df.decode at h
    rw [hp] at h
    cases h
  · have hr := readValue_inRange s (fieldValue c.data c.off s.len) h1 hlw (fieldValue_lt _ _ _)
    obtain ⟨t, ht, hd⟩ := C08.df_absent_unique cfg s c _ _ hw hp hr
    rw [hd] at h
    have htfin : ∀ b, t = Tok.flt b → (SoftFloat.ofBits (fmtOf s.dt) b).isFinite = true := by
      intro b hb
      by_cases hf : s.dt.isFloat = true
      · obtain ⟨b', hb', hfin, -⟩ := C08.df_decoded_finite cfg s _ hw hr hf
        rw [ht] at hb'
        cases hb'
        cases hb
        exact hfin
      · exfalso
        subst hb
        unfold Df.dequantise at ht
        simp only [hf, Bool.false_eq_true, if_false] at ht
        split at ht
        · split at ht
          · split at ht <;> cases ht
          · cases ht
        · cases ht
        · cases ht
    injection h with h
    injection h with h _
    subst h
    intro b hb
    cases hi : s.inv with
    | none =>
      simp only [hi] at hb
      have hb' : Tok.flt b = t := by simpa using hb
      exact htfin b hb'.symm
    | some inv =>
      simp only [hi] at hb
      split at hb
      · simp at hb
      · simp at hb
        exact htfin b hb.symm

theorem decColumn_finite (cfg : Cfg) (s : DfSpec) (hw : wf s = true) (n : Nat) (c : Cur)
    (col : List (List Tok)) (c' : Cur) (h : Msm.decColumn cfg s n c = .ok (col, c')) :
    ∀ t ∈ col, FinIn (fmtOf s.dt) t := by
  induction n generalizing c col with
  | zero =>
    unfold Msm.decColumn at h
    cases h
    intro t ht; cases ht
  | succ n ih =>
    unfold Msm.decColumn at h
    split at h
    · next t c1 h1 =>
      split at h
      · next ts c2 h2 =>
        cases h
        intro x hx
        rcases List.mem_cons.mp hx with rfl | hx
        · exact dfDecode_finite cfg s c hw _ _ h1
        · exact ih c1 ts h2 x hx
      · cases h
      · cases h
    · cases h
    · cases h

open Rtcm.SoftFloat Rtcm.Bias in
section

/-- the resolution constant is a non-negative finite float not above 1 -/
def smallRes (r : F) : Bool :=
  match r with
  | .fin false m => decide (0 ≤ m) && decide (m ≤ 1)
  | _ => false

theorem smallRes_001 : smallRes res001 = true := by decide +kernel
theorem smallRes_002 : smallRes res002 = true := by decide +kernel

theorem dequantBias_finite (res : F) (hres : smallRes res = true) (sv : Int)
    (h1 : -32768 ≤ sv) (h2 : sv ≤ 32767) :
    (SoftFloat.ofBits SoftFloat.binary32 (dequantBias res sv)).isFinite = true := by
  unfold smallRes at hres
  split at hres
  · next m =>
    simp only [Bool.and_eq_true, decide_eq_true_eq] at hres
    obtain ⟨hm0, hm1⟩ := hres
    have hz : sv.natAbs < 2 ^ binary32.p := by
      have : (2:Nat) ^ binary32.p = 16777216 := by decide
      omega
    have h0e := ofInt_eq binary32 (by decide) (by decide) sv hz
    have hn0 : (0 : ℚ) ≤ ((sv.natAbs : ℕ) : ℚ) := by positivity
    have hle : ((sv.natAbs : ℕ) : ℚ) * m ≤ 32768 := by
      have : ((sv.natAbs : ℕ) : ℚ) ≤ 32768 := by
        have : sv.natAbs ≤ 32768 := by omega
        exact_mod_cast this
      nlinarith
    have hno : rmv binary32 (((sv.natAbs : ℕ) : ℚ) * m) < omega binary32 := by
      have := rmv_le_of_le binary32 (mul_nonneg hn0 hm0) hle (by decide +kernel)
      have h3 : (32768 : ℚ) * (1 + ur binary32) < omega binary32 := by decide +kernel
      linarith
    unfold dequantBias f32
    rw [h0e, mul_fin_eq _ _ _ _ _ hno, ofBits_toBits_rmv _ good_binary32 _ _ (mul_nonneg hn0 hm0) hno]
    rfl
  · cases hres


theorem parseI16_range (cfg : Cfg) (len : Nat) (c : Cur) (h1 : 1 ≤ len) (h16 : len ≤ 16)
    (sv : Int) (c' : Cur) (h : Bias.parseI16 cfg len c = .ok (sv, c')) :
    -32768 ≤ sv ∧ sv ≤ 32767 := by
  unfold Bias.parseI16 at h
  rcases parse_total cfg ⟨.i, 16⟩ c.data c.off len (by decide) (by decide) h1 h16 with hp | hp
  · rw [hp] at h; cases h
  · rw [hp] at h
    cases h
    have hr := readValue_inRange
      { id := "", dt := .i16, it := ⟨.i, 16⟩, len := len, res := none, bias := none, round := none,
        inv := none, cap := none } (fieldValue c.data c.off len) h1 h16 (fieldValue_lt _ _ _)
    unfold DfWf.InRange DfWf.svLo DfWf.svHi Df.carrierVal IT.signed at hr
    simp only [] at hr
    rw [if_pos (by decide)] at hr
    have hp2 : (2 : Int) ^ (len - 1) ≤ 32768 := by
      have : (2 : Nat) ^ (len - 1) ≤ 2 ^ 15 := Nat.pow_le_pow_right (by decide) (by omega)
      have e : ((2 : Int) ^ (len - 1)) = ((2 ^ (len - 1) : Nat) : Int) := by simp
      rw [e]
      have : (2 : Nat) ^ 15 = 32768 := by decide
      omega
    omega

/-- every bias of the list is a finite `f32` -/
def BiasFin (es : List Bias.Entry) : Prop :=
  ∀ e ∈ es, (SoftFloat.ofBits SoftFloat.binary32 e.bias).isFinite = true

theorem decBiases_finite (cfg : Cfg) (p : Bias.Params) (sat n : Nat) (acc : List Bias.Entry) (c : Cur)
    (hacc : BiasFin acc) (es : List Bias.Entry) (c' : Cur)
    (h : Bias.decBiases cfg p sat n acc c = .ok (es, c')) : BiasFin es := by
  induction n generalizing acc c with
  | zero =>
    unfold Bias.decBiases at h
    cases h
    exact hacc
  | succ n ih =>
    unfold Bias.decBiases at h
    split at h
    · next sid c1 _ =>
      split at h
      · split at h
        · next sv c2 hp =>
          split at h
          · cases h
          · refine ih _ _ ?_ h
            intro e he
            rcases List.mem_append.mp he with he | he
            · exact hacc e he
            · simp only [List.mem_singleton] at he
              subst he
              obtain ⟨a, b⟩ := parseI16_range cfg 14 c1 (by omega) (by omega) sv c2 hp
              exact dequantBias_finite res001 smallRes_001 sv a b
        · cases h
        · cases h
      · exact ih _ _ hacc h
    · cases h
    · cases h

theorem decSats_finite (cfg : Cfg) (p : Bias.Params) (n : Nat) (acc : List Bias.Entry) (c : Cur)
    (hacc : BiasFin acc) (es : List Bias.Entry) (c' : Cur)
    (h : Bias.decSats cfg p n acc c = .ok (es, c')) : BiasFin es := by
  induction n generalizing acc c with
  | zero =>
    unfold Bias.decSats at h
    cases h
    exact hacc
  | succ n ih =>
    unfold Bias.decSats at h
    split at h
    · split at h
      · split at h
        · next acc' c3 hb => exact ih _ _ (decBiases_finite cfg p _ _ _ _ hacc _ _ hb) h
        · cases h
        · cases h
      · cases h
      · cases h
    · cases h
    · cases h

theorem biasDecode_finite (cfg : Cfg) (p : Bias.Params) (c : Cur) (es : List Bias.Entry) (c' : Cur)
    (h : Bias.decode cfg p c = .ok (es, c')) : BiasFin es := by
  unfold Bias.decode at h
  split at h
  · exact decSats_finite cfg p _ _ _ (fun _ he => by cases he) _ _ h
  · cases h
  · cases h

theorem dec1230Loop_finite (cfg : Cfg) (mask : Nat) (l : List ((Nat × Nat) × Nat)) (c : Cur)
    (es : List Bias.Entry) (c' : Cur) (h : Bias.dec1230Loop cfg mask l c = .ok (es, c')) :
    BiasFin es := by
  induction l generalizing c es with
  | nil =>
    unfold Bias.dec1230Loop at h
    cases h
    intro e he; cases he
  | cons x l ih =>
    obtain ⟨⟨b, a⟩, bit⟩ := x
    unfold Bias.dec1230Loop at h
    split at h
    · split at h
      · next sv c1 hp =>
        split at h
        · next es' c2 hl =>
          cases h
          intro e he
          rcases List.mem_cons.mp he with rfl | he
          · obtain ⟨a1, b1⟩ := parseI16_range cfg 16 c (by omega) (by omega) sv c1 hp
            exact dequantBias_finite res002 smallRes_002 sv a1 b1
          · exact ih c1 es' hl e he
        · cases h
        · cases h
      · cases h
      · cases h
    · exact ih c es h

theorem decode1230_finite (cfg : Cfg) (c : Cur) (es : List Bias.Entry) (c' : Cur)
    (h : Bias.decode1230 cfg c = .ok (es, c')) : BiasFin es := by
  unfold Bias.decode1230 at h
  split at h
  · exact dec1230Loop_finite cfg _ _ _ _ _ h
  · cases h
  · cases h

theorem biasToks_finite (withSat : Bool) (es : List Bias.Entry) (h : BiasFin es) :
    FinIn SoftFloat.binary32 (biasToks withSat es) := by
  intro b hb
  unfold biasToks at hb
  simp only [List.mem_cons, List.mem_flatMap, List.mem_append, reduceCtorEq, false_or] at hb
  obtain ⟨e, he, hb⟩ := hb
  rcases hb with hb | hb
  · split at hb <;> simp at hb
  · simp at hb
    rw [hb]
    exact h e he

end

theorem decColumns_finite (cfg : Cfg) (n : Nat) (fs : List (String × DfSpec)) (hw : wfSpecs fs = true)
    (c : Cur) (cols : List (List (List Tok))) (c' : Cur)
    (h : Msm.decColumns cfg n fs c = .ok (cols, c')) :
    List.Forall₂ (fun f col => ∀ t ∈ col, FinIn (fmtOf f.2.dt) t) fs cols := by
  induction fs generalizing c cols with
  | nil =>
    unfold Msm.decColumns at h
    cases h
    exact .nil
  | cons f fs ih =>
    obtain ⟨name, s⟩ := f
    unfold wfSpecs at hw ih
    simp only [List.all_cons, Bool.and_eq_true] at hw
    unfold Msm.decColumns at h
    split at h
    · next col c1 h1 =>
      split at h
      · next cols' c2 h2 =>
        cases h
        exact .cons (decColumn_finite cfg s hw.1 n c col c1 h1) (ih hw.2 c1 cols' h2)
      · cases h
      · cases h
    · cases h
    · cases h

/-! ### decoded floats are finite: the whole layout -/

/-- the field token lists of one MSM row are finite, each in the format of its column -/
def FinRow (fs : List (String × DfSpec)) (fields : List (List Tok)) : Prop :=
  List.Forall₂ (fun f t => FinIn (fmtOf f.2.dt) t) fs fields

mutual
/-- `toks` is a token stream of layout `f` in which every float is finite in the format of the field
that produced it -/
def FinFrag : Frag → List Tok → Prop
  | .df s, toks => FinIn (fmtOf s.dt) toks
  | .str _ _, _ => True
  | .text1029, _ => True
  | .bias1059 _ _, toks => FinIn SoftFloat.binary32 toks
  | .bias1065 _ _, toks => FinIn SoftFloat.binary32 toks
  | .bias1230, toks => FinIn SoftFloat.binary32 toks
  | .seq fs, toks => FinFields fs toks
  | .lenMiddle f1 _ f2 e _, toks =>
    ∃ t1 n t2 tes, toks = t1 ++ [.count n] ++ t2 ++ List.flatten tes ∧ FinFields f1 t1 ∧
      FinFields f2 t2 ∧ ∀ te ∈ tes, FinFrag e te
  | .vecWithLen e _ _, toks => ∃ n tes, toks = .count n :: List.flatten tes ∧ ∀ te ∈ tes, FinFrag e te
  | .grid16 e, toks => ∃ tes, toks = List.flatten tes ∧ ∀ te ∈ tes, FinFrag e te
  | .msm _ sat sig, toks =>
    ∃ sats sigs, toks = satToks sats ++ sigToks sigs ∧ (∀ r ∈ sats, FinRow sat r.fields) ∧
      (∀ r ∈ sigs, FinRow sig r.fields)
def FinFields : Fields → List Tok → Prop
  | .nil, toks => toks = []
  | .cons _ f rest, toks => ∃ t ts, toks = t ++ ts ∧ FinFrag f t ∧ FinFields rest ts
end

theorem decRepeat_collect (f : Dec) (n : Nat) (c : Cur) (ts : List Tok) (c' : Cur)
    (h : decRepeat f n c = .ok (ts, c')) :
    ∃ tes, ts = List.flatten tes ∧ ∀ te ∈ tes, ∃ c1 c2, f c1 = .ok (te, c2) := by
  induction n generalizing c ts with
  | zero =>
    unfold decRepeat at h
    cases h
    exact ⟨[], rfl, fun _ h => by cases h⟩
  | succ n ih =>
    unfold decRepeat at h
    split at h
    · next t c1 h1 =>
      split at h
      · next ts' c2 h2 =>
        cases h
        obtain ⟨tes, rfl, htes⟩ := ih c1 ts' h2
        refine ⟨t :: tes, by simp, ?_⟩
        intro te hte
        rcases List.mem_cons.mp hte with rfl | hte
        · exact ⟨c, c1, h1⟩
        · exact htes te hte
      · cases h
      · cases h
    · cases h
    · cases h

theorem rowOf_fin (fs : List (String × DfSpec)) (cols : List (List (List Tok))) (i : Nat)
    (h : List.Forall₂ (fun f col => ∀ t ∈ col, FinIn (fmtOf f.2.dt) t) fs cols) :
    FinRow fs (Msm.rowOf cols i) := by
  unfold FinRow Msm.rowOf
  induction h with
  | nil => exact .nil
  | @cons f col fs cols hd _ ih =>
    refine .cons ?_ ih
    show FinIn (fmtOf f.2.dt) (col.getD i [])
    rw [List.getD_eq_getElem?_getD]
    cases hc : col[i]? with
    | none => exact FinIn.nil _
    | some t => exact hd t (List.mem_of_getElem? hc)

theorem msmDecode_finite (cfg : Cfg) (tbl : SigTable) (satFields sigFields : List (String × DfSpec))
    (hsat : wfSpecs satFields = true) (hsig : wfSpecs sigFields = true) (c : Cur)
    (sats : List Msm.SatRow) (sigs : List Msm.SigRow) (c' : Cur)
    (h : Msm.decode cfg tbl satFields sigFields c = .ok (sats, sigs, c')) :
    (∀ r ∈ sats, FinRow satFields r.fields) ∧ (∀ r ∈ sigs, FinRow sigFields r.fields) := by
  unfold Msm.decode at h
  split at h
  · split at h
    · split at h
      · cases h
        exact ⟨(fun _ h => by cases h), fun _ h => by cases h⟩
      · simp only [] at h
        split at h
        · cases h
        · split at h
          · split at h
            · next satCols c4 hsc =>
              split at h
              · split at h
                · next sigCols c5 hgc =>
                  cases h
                  have f1 := decColumns_finite cfg _ satFields hsat _ satCols c4 hsc
                  have f2 := decColumns_finite cfg _ sigFields hsig _ sigCols _ hgc
                  constructor
                  · intro r hr
                    obtain ⟨i, -, rfl⟩ := List.mem_map.mp hr
                    exact rowOf_fin satFields satCols i f1
                  · intro r hr
                    obtain ⟨i, -, rfl⟩ := List.mem_map.mp hr
                    exact rowOf_fin sigFields sigCols i f2
                · cases h
                · cases h
              · cases h
              · cases h
            · cases h
            · cases h
          · cases h
          · cases h
    · cases h
    · cases h
  · cases h
  · cases h

mutual
theorem decFrag_finite (cfg : Cfg) :
    ∀ (f : Frag), WFFrag f = true → ∀ (c : Cur) (toks : List Tok) (c' : Cur),
      decFrag cfg f c = .ok (toks, c') → FinFrag f toks
  | .df s, hw, c, toks, c', h => by
    unfold WFFrag at hw
    unfold decFrag at h
    unfold FinFrag
    exact dfDecode_finite cfg s c hw toks c' h
  | .str _ _, _, _, _, _, _ => by unfold FinFrag; trivial
  | .text1029, _, _, _, _, _ => by unfold FinFrag; trivial
  | .bias1059 cap tbl, _, c, toks, c', h => by
    unfold decFrag at h
    unfold FinFrag
    split at h
    · next es c1 hd =>
      cases h
      exact biasToks_finite true es (biasDecode_finite cfg _ c es _ hd)
    · cases h
    · cases h
  | .bias1065 cap tbl, _, c, toks, c', h => by
    unfold decFrag at h
    unfold FinFrag
    split at h
    · next es c1 hd =>
      cases h
      exact biasToks_finite true es (biasDecode_finite cfg _ c es _ hd)
    · cases h
    · cases h
  | .bias1230, _, c, toks, c', h => by
    unfold decFrag at h
    unfold FinFrag
    split at h
    · next es c1 hd =>
      cases h
      exact biasToks_finite false es (decode1230_finite cfg c es _ hd)
    · cases h
    · cases h
  | .seq fs, hw, c, toks, c', h => by
    unfold WFFrag at hw
    unfold decFrag at h
    unfold FinFrag
    exact decFields_finite cfg fs hw c toks c' h
  | .lenMiddle f1 l f2 e cap, hw, c, toks, c', h => by
    unfold WFFrag at hw
    simp only [Bool.and_eq_true] at hw
    obtain ⟨⟨⟨h1, hl⟩, h2⟩, he⟩ := hw
    unfold decFrag at h
    unfold FinFrag
    split at h
    · next t1 c1 hd1 =>
      split at h
      · next n c2 _ =>
        split at h
        · next t2 c3 hd2 =>
          split at h
          · cases h
          · split at h
            · next te c4 hr =>
              cases h
              obtain ⟨tes, rfl, htes⟩ := decRepeat_collect _ _ _ _ _ hr
              refine ⟨t1, n.toNat, t2, tes, rfl, decFields_finite cfg f1 h1 c t1 c1 hd1,
                decFields_finite cfg f2 h2 c2 t2 c3 hd2, ?_⟩
              intro x hx
              obtain ⟨a, b, hab⟩ := htes x hx
              exact decFrag_finite cfg e he a x b hab
            · cases h
            · cases h
        · cases h
        · cases h
      · cases h
      · cases h
      · cases h
    · cases h
    · cases h
  | .vecWithLen e cap lenBits, hw, c, toks, c', h => by
    unfold WFFrag at hw
    simp only [Bool.and_eq_true, decide_eq_true_eq] at hw
    unfold decFrag at h
    unfold FinFrag
    split at h
    · next n o _ =>
      split at h
      · cases h
      · split at h
        · next te c4 hr =>
          cases h
          obtain ⟨tes, rfl, htes⟩ := decRepeat_collect _ _ _ _ _ hr
          refine ⟨n, tes, rfl, ?_⟩
          intro x hx
          obtain ⟨a, b, hab⟩ := htes x hx
          exact decFrag_finite cfg e hw.2 a x b hab
        · cases h
        · cases h
    · cases h
    · cases h
  | .grid16 e, hw, c, toks, c', h => by
    unfold WFFrag at hw
    unfold decFrag at h
    unfold FinFrag
    obtain ⟨tes, rfl, htes⟩ := decRepeat_collect _ _ _ _ _ h
    refine ⟨tes, rfl, ?_⟩
    intro x hx
    obtain ⟨a, b, hab⟩ := htes x hx
    exact decFrag_finite cfg e hw a x b hab
  | .msm tbl sat sig, hw, c, toks, c', h => by
    unfold WFFrag at hw
    simp only [Bool.and_eq_true] at hw
    unfold decFrag at h
    unfold FinFrag
    split at h
    · next sats sigs c1 hd =>
      cases h
      obtain ⟨a, b⟩ := msmDecode_finite cfg tbl sat sig hw.1.2 hw.2 c sats sigs _ hd
      exact ⟨sats, sigs, rfl, a, b⟩
    · cases h
    · cases h
theorem decFields_finite (cfg : Cfg) :
    ∀ (fs : Fields), WFFields fs = true → ∀ (c : Cur) (toks : List Tok) (c' : Cur),
      decFields cfg fs c = .ok (toks, c') → FinFields fs toks
  | .nil, _, c, toks, c', h => by
    unfold decFields at h
    cases h
    unfold FinFields
    rfl
  | .cons _ f rest, hw, c, toks, c', h => by
    unfold WFFields at hw
    simp only [Bool.and_eq_true] at hw
    unfold decFields at h
    unfold FinFields
    split at h
    · next t c1 h1 =>
      split at h
      · next ts c2 h2 =>
        cases h
        exact ⟨t, ts, rfl, decFrag_finite cfg f hw.1 c t c1 h1, decFields_finite cfg rest hw.2 c1 ts _ h2⟩
      · cases h
      · cases h
    · cases h
    · cases h
end


end Rtcm.NoPanic
