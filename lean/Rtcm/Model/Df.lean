import Rtcm.Model.Schema
import Rtcm.Model.SoftFloat
/-!
# L3: the `df!` encode / decode bodies (src/df/mod.rs), generic in the `DfSpec`

Message values travel as positional token streams in schema order (`Tok`), so that neither side
of the correspondence needs field names: an integer field is `int z`, a float field its IEEE bit
pattern `flt bits`, an optional field `absent` or `present` followed by the value.
-/
namespace Rtcm
open Rtcm.Bits Rtcm.Schema Rtcm.SoftFloat

inductive Tok where
  | int (z : Int)
  | flt (bits : Nat)
  | absent
  | present
  /-- raw bytes: descriptor string content, UTF-8 text -/
  | bytes (b : List Nat)
  /-- element count of the list that follows -/
  | count (n : Nat)
  /-- signal identifier: band, attribute code point -/
  | sig (band attr : Nat)
  deriving DecidableEq, Repr

/-- bit writer / reader state: buffer bytes and bit cursor -/
structure Cur where
  data : List Nat
  off : Nat
  deriving Repr

namespace Df

def fmtOf : DT → Fmt
  | .f32 => binary32
  | _ => binary64

/-- constant evaluation of a `res`/`bias` expression in the field's float type -/
def evalF (fmt : Fmt) : FExpr → F
  | .int n => SoftFloat.round fmt (n : Rat)
  | .dec m e =>
    SoftFloat.round fmt (if 0 ≤ e then (m : Rat) * ((10 ^ e.toNat : Nat) : Rat)
                         else (m : Rat) / ((10 ^ (-e).toNat : Nat) : Rat))
  | .neg a => SoftFloat.neg (evalF fmt a)
  | .mul a b => SoftFloat.mul fmt (evalF fmt a) (evalF fmt b)
  | .div a b => SoftFloat.div fmt (evalF fmt a) (evalF fmt b)

/-- integer literals of integer-typed fields (`res: 4`, `bias: -7`) -/
def evalI : FExpr → Int
  | .int n => n
  | .dec m _ => m
  | .neg a => - evalI a
  | .mul a b => evalI a * evalI b
  | .div a b => Int.tdiv (evalI a) (evalI b)

def dtRange (dt : DT) : Int × Int :=
  let (sg, w) := dt.intInfo
  if sg then (-(2 ^ (w - 1) : Nat), (2 ^ (w - 1) : Nat) - 1) else (0, (2 ^ w : Nat) - 1)

def carrierRange (it : IT) : Int × Int :=
  if it.signed then (-(2 ^ (it.w - 1) : Nat), (2 ^ (it.w - 1) : Nat) - 1) else (0, (2 ^ it.w : Nat) - 1)

/-- wrap an integer into the range of `dt` (`as` between integer types) -/
def wrapDT (dt : DT) (z : Int) : Int :=
  let (sg, w) := dt.intInfo
  let p := Bits.ofInt w z
  if sg then Bits.toInt w p else p

/-- arithmetic in `dt` with Rust overflow behaviour -/
def arithDT (cfg : Cfg) (dt : DT) (exact : Int) (what : String) : Res Int :=
  let (lo, hi) := dtRange dt
  if lo ≤ exact ∧ exact ≤ hi then .ok exact
  else if cfg.checked then .panic ("attempt to " ++ what ++ " with overflow")
  else .ok (wrapDT dt exact)

/-- signed/unsigned reading of a carrier pattern -/
def carrierVal (it : IT) (p : Nat) : Int := if it.signed then Bits.toInt it.w p else p

/-- the carrier pattern written for a *present* value of the field -/
def quantise (s : DfSpec) (v : Tok) : Res Nat :=
  if s.dt.isFloat then
    match v with
    | .flt bits =>
      let fmt := fmtOf s.dt
      let x := ofBits fmt bits
      let step1 : Res F := match s.bias with
        | some b => let bv := evalF fmt b
                    if ge x bv then .ok (sub fmt x bv) else .err .outOfRange
        | none => .ok x
      match step1 with
      | .ok x =>
        let x := match s.res with
          | some r => div fmt x (evalF fmt r)
          | none => x
        let x := if s.round = some true then
            add fmt x (if ge x zero then .fin false (1/2) else .fin true (1/2)) else x
        let (lo, hi) := carrierRange s.it
        .ok (Bits.ofInt s.it.w (toIntSat x lo hi))
      | .err e => .err e
      | .panic w => .panic w
    | _ => .panic "tokens: float expected"
  else
    match v with
    | .int z =>
      let step1 : Res Int := match s.bias with
        | some b => let bv := evalI b
                    if z ≥ bv then
                      (let (lo, hi) := dtRange s.dt
                       if lo ≤ z - bv ∧ z - bv ≤ hi then .ok (z - bv) else .err .outOfRange)
                    else .err .outOfRange
        | none => .ok z
      match step1 with
      | .ok z =>
        let z := match s.res with
          | some r => Int.tdiv z (evalI r)
          | none => z
        .ok (Bits.ofInt s.it.w z)
      | .err e => .err e
      | .panic w => .panic w
    | _ => .panic "tokens: integer expected"

/-- `encode`: consumes the field's tokens, writes `len` bits -/
def encode (cfg : Cfg) (s : DfSpec) (toks : List Tok) (c : Cur) : Res (Cur × List Tok) :=
  let putPat (p : Nat) (rest : List Tok) : Res (Cur × List Tok) :=
    match Bits.put cfg s.it c.data c.off p s.len with
    | .ok (d, o) => .ok ({ data := d, off := o }, rest)
    | .err e => .err e
    | .panic w => .panic w
  match s.inv with
  | some inv =>
    match toks with
    | .absent :: rest => putPat (Bits.ofInt s.it.w inv) rest
    | .present :: v :: rest =>
      match quantise s v with
      | .ok p => putPat p rest
      | .err e => .err e
      | .panic w => .panic w
    | _ => .panic "tokens: optional expected"
  | none =>
    match toks with
    | v :: rest =>
      match quantise s v with
      | .ok p => putPat p rest
      | .err e => .err e
      | .panic w => .panic w
    | [] => .panic "tokens: value expected"

/-- the value a carrier reading `sv` decodes to (before the `inv` test) -/
def dequantise (cfg : Cfg) (s : DfSpec) (sv : Int) : Res Tok :=
  if s.dt.isFloat then
    let fmt := fmtOf s.dt
    let x := ofInt fmt sv
    let x := match s.res with
      | some r => mul fmt x (evalF fmt r)
      | none => x
    let x := match s.bias with
      | some b => add fmt x (evalF fmt b)
      | none => x
    .ok (.flt (toBits fmt x))
  else
    let z := wrapDT s.dt sv
    let r1 : Res Int := match s.res with
      | some r => arithDT cfg s.dt (z * evalI r) "multiply"
      | none => .ok z
    match r1 with
    | .ok z =>
      match s.bias with
      | some b =>
        match arithDT cfg s.dt (z + evalI b) "add" with
        | .ok z => .ok (.int z)
        | .err e => .err e
        | .panic w => .panic w
      | none => .ok (.int z)
    | .err e => .err e
    | .panic w => .panic w

/-- `decode`: reads `len` bits, produces the field's tokens -/
def decode (cfg : Cfg) (s : DfSpec) (c : Cur) : Res (List Tok × Cur) :=
  match Bits.parse cfg s.it c.data c.off s.len with
  | .ok (p, o) =>
    let sv := carrierVal s.it p
    match dequantise cfg s sv with
    | .ok t =>
      match s.inv with
      | some inv => if sv = inv then .ok ([.absent], { c with off := o }) else .ok ([.present, t], { c with off := o })
      | none => .ok ([t], { c with off := o })
    | .err e => .err e
    | .panic w => .panic w
  | .err e => .err e
  | .panic w => .panic w

end Df
end Rtcm
