import Rtcm.Model.Bits
/-!
# L3/L5 declarative types: what the translator fills in

`DfSpec` = the arguments of one `df!` invocation; `Frag` = the arguments of the message-layout
macros, with references resolved; `SigTable` = one `msm_mappings!` / `sig_mappings!` table;
`MsgRow` = one row of `message!`.
-/
namespace Rtcm.Schema
open Rtcm.Bits

/-- `dt:` of a `df!` -/
inductive DT where
  | u8 | u16 | u32 | u64 | i8 | i16 | i32 | i64 | usize | f32 | f64
  deriving DecidableEq, Repr

def DT.isFloat : DT → Bool
  | .f32 | .f64 => true
  | _ => false

/-- (signed, bit width) of an integer `dt` -/
def DT.intInfo : DT → Bool × Nat
  | .u8 => (false, 8) | .u16 => (false, 16) | .u32 => (false, 32) | .u64 => (false, 64)
  | .i8 => (true, 8) | .i16 => (true, 16) | .i32 => (true, 32) | .i64 => (true, 64)
  | .usize => (false, 64) | .f32 => (false, 0) | .f64 => (false, 0)

/-- `res:` / `bias:` expression as written in the source: decimal literal `m·10^e`, integer
literal, product, quotient, negation. Evaluated with the field's own arithmetic (IEEE for float
fields), so constant evaluation and run-time semantics coincide. -/
inductive FExpr where
  | int (n : Nat)
  | dec (m : Nat) (e : Int)
  | neg (a : FExpr)
  | mul (a b : FExpr)
  | div (a b : FExpr)
  deriving DecidableEq, Repr

structure DfSpec where
  id : String
  dt : DT
  it : IT
  len : Nat
  res : Option FExpr
  bias : Option FExpr
  /-- `round: true|false`, absent for most integer fields -/
  round : Option Bool
  /-- `inv:` marker (signed reading of the carrier); `none` = `ord:` field -/
  inv : Option Int
  /-- `cap:` (count fields; used by the crate's generator only) -/
  cap : Option Nat
  deriving DecidableEq, Repr

/-- rows `(identifier, band, attribute code point)` in source order (Rust `match` = first match) -/
abbrev SigTable := List (Nat × Nat × Nat)

mutual
inductive Frag where
  | df (s : DfSpec)
  /-- `df_88591_string_with_len!`: capacity, bits of the length prefix -/
  | str (cap lenBits : Nat)
  | text1029
  | bias1059 (cap : Nat) (tbl : SigTable)
  | bias1065 (cap : Nat) (tbl : SigTable)
  | bias1230
  /-- `msg!` -/
  | seq (fs : Fields)
  /-- `msg_len_middle!` over a `frag_vec!`: fields1, count field, fields2, element, capacity -/
  | lenMiddle (f1 : Fields) (lenDf : DfSpec) (f2 : Fields) (elem : Frag) (cap : Nat)
  /-- `frag_vec_with_len!` -/
  | vecWithLen (elem : Frag) (cap lenBits : Nat)
  /-- `frag_grid16p!` -/
  | grid16 (elem : Frag)
  /-- `msm_data_seg_frag!` with its `msm_sat_frag!` and `msm_sig_frag!` field lists -/
  | msm (tbl : SigTable) (satFields sigFields : List (String × DfSpec))
inductive Fields where
  | nil
  | cons (name : String) (f : Frag) (rest : Fields)
end

structure MsgRow where
  feature : String
  variant : String
  module : String
  number : Nat
  frag : Frag

end Rtcm.Schema
