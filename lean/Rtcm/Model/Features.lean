/-!
# L6: feature selection model (C19)

Modules, their `cfg` gates and their inter-module `use super::…` dependencies, as extracted by the
translator; the dispatch table under a feature set. rustc's own name resolution and `cfg`
evaluation inside macro bodies are *not* modelled: the real decision is made by actual builds.
-/
namespace Rtcm.Features

abbrev FeatureSet := List String

def lookup (tbl : List (String × List String)) (k : String) : Option (List String) :=
  (tbl.find? (·.1 == k)).map (·.2)

/-- is module `m` compiled under feature set `fs`? Message modules are gated by their own feature
(`include_msg!`), shared satellite fragments by a `cfg(any(..))` list; other modules are ungated. -/
def moduleEnabled (gates : List (String × List String)) (includes : List (String × String))
    (fs : FeatureSet) (m : String) : Bool :=
  match lookup gates m with
  | some g => g.any fs.contains
  | none =>
    match includes.find? (·.1 == m) with
    | some (_, f) => fs.contains f
    | none => true

/-- every `use super::dep::*` of every enabled module refers to an enabled module -/
def closed (gates : List (String × List String)) (includes : List (String × String))
    (uses : List (String × List String)) (fs : FeatureSet) : Bool :=
  uses.all fun (m, deps) =>
    !(moduleEnabled gates includes fs m) || deps.all (moduleEnabled gates includes fs)

/-- message numbers dispatched under `fs` -/
def supported (rows : List (String × String × String × Nat)) (fs : FeatureSet) : List Nat :=
  (rows.filter fun r => fs.contains r.1).map fun r => r.2.2.2

def allFeaturesKnown (cargo : List (String × List String)) (names : List String) : Bool :=
  names.all fun n => cargo.any (·.1 == n)

end Rtcm.Features
