/-!
# L6: feature selection model (C19)

Modules, their `cfg` gates and their inter-module `use super::…` dependencies, as extracted by the
translator; the dispatch table under a feature set. rustc's own name resolution and `cfg`
evaluation inside macro bodies are *not* modelled: the real decision is made by actual builds.
-/
namespace Rtcm.Features

abbrev FeatureSet := List String

def lookup (tbl : List (String × List String)) (k : String) : Option (List String) :=
  (tbl.find? (·.1 == k)).map (·.2)

/-- is module `m` compiled under feature set `fs`? Message modules are gated by their own feature
(`include_msg!`), shared satellite fragments by a `cfg(any(..))` list; other modules are ungated. -/
def moduleEnabled (gates : List (String × List String)) (includes : List (String × String))
    (fs : FeatureSet) (m : String) : Bool :=
  match lookup gates m with
  | some g => g.any fs.contains
  | none =>
    match includes.find? (·.1 == m) with
    | some (_, f) => fs.contains f
    | none => true

/-- every `use super::dep::*` of every enabled module refers to an enabled module -/
def closed (gates : List (String × List String)) (includes : List (String × String))
    (uses : List (String × List String)) (fs : FeatureSet) : Bool :=
  uses.all fun (m, deps) =>
    !(moduleEnabled gates includes fs m) || deps.all (moduleEnabled gates includes fs)

/-- message numbers dispatched under `fs` -/
def supported (rows : List (String × String × String × Nat)) (fs : FeatureSet) : List Nat :=
  (rows.filter fun r => fs.contains r.1).map fun r => r.2.2.2

/-- Cargo: selecting a feature enables the features it lists, transitively. Worklist with fuel (every
step either drops a name already seen or adds a new one; `cargo.length + |sel|`·`cargo.length` is ample —
the theorems that use `enables` check on the regenerated table that the worklist ran empty). -/
def enablesAux (cargo : List (String × List String)) : Nat → List String → List String → List String × Bool
  | _, [], acc => (acc.reverse, true)
  | 0, _ :: _, acc => (acc.reverse, false)
  | fuel + 1, f :: todo, acc =>
    if acc.contains f then enablesAux cargo fuel todo acc
    else
      let next := ((lookup cargo f).getD []).filter fun x => cargo.any (·.1 == x)
      enablesAux cargo fuel (todo ++ next) (f :: acc)

def fuelFor (cargo : List (String × List String)) (sel : List String) : Nat :=
  sel.length + (cargo.map fun r => r.2.length + 1).sum + 1

/-- all features enabled by the selection `sel` (including `sel`) -/
def enables (cargo : List (String × List String)) (sel : List String) : List String :=
  (enablesAux cargo (fuelFor cargo sel) sel []).1

/-- the worklist ran empty within the fuel -/
def enablesComplete (cargo : List (String × List String)) (sel : List String) : Bool :=
  (enablesAux cargo (fuelFor cargo sel) sel []).2

/-- the message-type features: what `all_msgs` enables, minus group features (features that enable
other features) -/
def msgFeatures (cargo : List (String × List String)) : List String :=
  (enables cargo ["all_msgs"]).filter fun f => lookup cargo f == some []

def allFeaturesKnown (cargo : List (String × List String)) (names : List String) : Bool :=
  names.all fun n => cargo.any (·.1 == n)

end Rtcm.Features
