import Rtcm.Model.Df
/-! Text form of tokens on the line protocol (driver side only). -/
namespace Rtcm

def hexNat (n : Nat) : String :=
  if n = 0 then "0" else
  let rec go (fuel n : Nat) (acc : List Char) : List Char :=
    match fuel with
    | 0 => acc
    | fuel + 1 => if n = 0 then acc else go fuel (n / 16) (hexDigit (n % 16) :: acc)
  String.ofList (go 64 n [])

def natOfHex (s : String) : Option Nat :=
  if s.isEmpty then none else
  s.toList.foldl (fun acc c => match acc, hexVal c with
    | some a, some v => some (16 * a + v)
    | _, _ => none) (some 0)

def Tok.text : Tok → String
  | .int z => "i" ++ toString z
  | .flt b => "f" ++ hexNat b
  | .absent => "N"
  | .present => "S"
  | .bytes b => "b" ++ hexOrDash (b.map UInt8.ofNat)
  | .count n => "c" ++ toString n
  | .sig b a => "g" ++ toString b ++ ":" ++ toString a

def toksText (ts : List Tok) : String := " ".intercalate (ts.map Tok.text)

def Tok.parse (s : String) : Option Tok :=
  match s.toList with
  | 'i' :: r => (String.ofList r).toInt?.map .int
  | 'f' :: r => (natOfHex (String.ofList r)).map .flt
  | ['N'] => some .absent
  | ['S'] => some .present
  | 'b' :: r => (bytesOfHex (String.ofList r)).map fun b => .bytes (b.map (·.toNat))
  | 'c' :: r => (String.ofList r).toNat?.map .count
  | 'g' :: r =>
    match (String.ofList r).splitOn ":" with
    | [b, a] => match b.toNat?, a.toNat? with
      | some b, some a => some (.sig b a)
      | _, _ => none
    | _ => none
  | _ => none

def parseToks (ws : List String) : Option (List Tok) := ws.mapM Tok.parse

end Rtcm
