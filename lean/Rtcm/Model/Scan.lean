import Rtcm.Model.Frame
/-!
# L1: `next_msg_frame`, `MsgFrameIter` (src/lib.rs) and the caller protocol of chunked use

`scan` is `next_msg_frame`: structural recursion over the buffer; the position `i` of the
Rust loop is the number of `+ 1`s accumulated on the way back.
-/
namespace Rtcm

/-- `next_msg_frame`: (bytes consumed, frame if one was found). -/
def scan : List UInt8 → Nat × Option Frame
  | [] => (0, none)
  | b :: rest =>
    if b = 0xd3 then
      match frameNew (b :: rest) with
      | .ok f => (f.frameLen, some f)
      | .error .incomplete => (0, none)
      | .error .notValid => ((scan rest).1 + 1, (scan rest).2)
    else ((scan rest).1 + 1, (scan rest).2)

/-- State of `MsgFrameIter`: the data and the index. -/
structure IterState where
  data : List UInt8
  index : Nat
  deriving Repr

/-- `<&mut MsgFrameIter as Iterator>::next` -/
def IterState.next (s : IterState) : IterState × Option Frame :=
  if s.index ≥ s.data.length then (s, none)
  else
    let r := scan (s.data.drop s.index)
    ({ s with index := s.index + r.1 }, r.2)

/-- Run the iterator the way a `for` loop does: until the first `None`. Fuel bounds the number
of `next` calls (`|data| + 1` is always enough: a yielded frame consumes at least 6 bytes). -/
def IterState.collect : Nat → IterState → List Frame × IterState
  | 0, s => ([], s)
  | fuel + 1, s =>
    match s.next with
    | (s', some f) => let r := collect fuel s'; (f :: r.1, r.2)
    | (s', none) => ([], s')

def iterFrames (d : List UInt8) : List Frame × Nat :=
  let r := IterState.collect (d.length + 1) { data := d, index := 0 }
  (r.1, r.2.index)

/-- Caller protocol of C06: call the scanner on the buffer, drop what it reports consumed,
repeat while it delivers a frame. Returns delivered frames and the remaining buffer. -/
def drain : Nat → List UInt8 → List Frame × List UInt8
  | 0, buf => ([], buf)
  | fuel + 1, buf =>
    match scan buf with
    | (c, some f) => let r := drain fuel (buf.drop c); (f :: r.1, r.2)
    | (c, none) => ([], buf.drop c)

/-- enough fuel for any buffer -/
def drainAll (buf : List UInt8) : List Frame × List UInt8 := drain (buf.length + 1) buf

structure StreamState where
  buf : List UInt8
  delivered : List Frame
  consumed : Nat
  deriving Repr

def StreamState.init : StreamState := { buf := [], delivered := [], consumed := 0 }

/-- append a chunk, then drain -/
def StreamState.feed (s : StreamState) (chunk : List UInt8) : StreamState :=
  let b := s.buf ++ chunk
  let r := drainAll b
  { buf := r.2, delivered := s.delivered ++ r.1, consumed := s.consumed + (b.length - r.2.length) }

def feedAll (chunks : List (List UInt8)) : StreamState := chunks.foldl StreamState.feed .init

/-- A caller may also interleave appends and single scanner calls in any order. -/
inductive StreamOp where
  | append (chunk : List UInt8)
  | scanOnce
  deriving Repr

def StreamState.step (s : StreamState) : StreamOp → StreamState
  | .append c => { s with buf := s.buf ++ c }
  | .scanOnce =>
    let r := scan s.buf
    { buf := s.buf.drop r.1, delivered := s.delivered ++ r.2.toList, consumed := s.consumed + r.1 }

/-- after the last piece: drain what is left -/
def StreamState.finish (s : StreamState) : StreamState :=
  let r := drainAll s.buf
  { buf := r.2, delivered := s.delivered ++ r.1, consumed := s.consumed + (s.buf.length - r.2.length) }

/-- the bytes appended by a schedule, in order -/
def appended : List StreamOp → List UInt8
  | [] => []
  | .append c :: rest => c ++ appended rest
  | .scanOnce :: rest => appended rest

end Rtcm
