import Rtcm.Model.Schema
/-!
Static size bounds and count-field checks over the layout terms (used by C15 / C02 / C09).
-/
namespace Rtcm.Size
open Rtcm.Schema

def sumLens (fs : List (String × DfSpec)) : Nat := (fs.map (·.2.len)).sum

mutual
/-- an upper bound on the number of bits a fragment occupies -/
def maxBits : Frag → Nat
  | .df s => s.len
  | .str cap lenBits => lenBits + 8 * cap
  | .text1029 => 15 + 8 * 255
  | .bias1059 cap _ => 6 + 64 * 11 + cap * 19
  | .bias1065 cap _ => 6 + 32 * 10 + cap * 19
  | .bias1230 => 4 + 4 * 16
  | .seq fs => maxBitsFields fs
  | .lenMiddle f1 l f2 e cap => maxBitsFields f1 + l.len + maxBitsFields f2 + cap * maxBits e
  | .vecWithLen e cap lenBits => lenBits + cap * maxBits e
  | .grid16 e => 16 * maxBits e
  | .msm _ sat sig => 64 + 32 + 64 + 64 * sumLens sat + 64 * sumLens sig
def maxBitsFields : Fields → Nat
  | .nil => 0
  | .cons _ f rest => maxBits f + maxBitsFields rest
end

mutual
/-- the fragment contains no MSM data segment and no bias list (they have their own properties) -/
def plain : Frag → Bool
  | .df _ | .str _ _ | .text1029 => true
  | .bias1059 _ _ | .bias1065 _ _ | .bias1230 | .msm _ _ _ => false
  | .seq fs => plainFields fs
  | .lenMiddle f1 _ f2 e _ => plainFields f1 && plainFields f2 && plain e
  | .vecWithLen e _ _ => plain e
  | .grid16 e => plain e
def plainFields : Fields → Bool
  | .nil => true
  | .cons _ f rest => plain f && plainFields rest
end

mutual
/-- every count field is wide enough for its capacity (a wrapped count would otherwise be written) -/
def countsFit : Frag → Bool
  | .df _ | .text1029 | .bias1059 _ _ | .bias1065 _ _ | .bias1230 | .msm _ _ _ => true
  | .str cap lenBits => decide (cap < 2 ^ lenBits) && decide (lenBits ≤ 8)
  | .seq fs => countsFitFields fs
  | .lenMiddle f1 l f2 e cap =>
    decide (cap < 2 ^ l.len) && l.res.isNone && l.bias.isNone && l.inv.isNone &&
      countsFitFields f1 && countsFitFields f2 && countsFit e
  | .vecWithLen e cap lenBits => decide (cap < 2 ^ lenBits) && decide (lenBits ≤ 16) && countsFit e
  | .grid16 e => countsFit e
def countsFitFields : Fields → Bool
  | .nil => true
  | .cons _ f rest => countsFit f && countsFitFields rest
end

end Rtcm.Size
