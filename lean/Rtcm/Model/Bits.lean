import Rtcm.Model.Basic
/-!
# L2 (code-shaped): `Assembler::put`, `Parser::parse`, `BitValue::{sign_fix, sign_fix_rev, u8_cast, val_cast}`

src/df/assembler.rs, src/df/parser.rs, src/df/bit_value.rs (after repair D3).

A carrier value (`u8..u64`, `i8..i64`) is its `w`-bit two's-complement *pattern*, a `Nat < 2^w`.
Buffer bytes are `Nat < 256`. Integer operations that Rust checks only with `overflow-checks`
(`usize` subtraction, shift amounts) take the build profile: overflow ⇒ `panic` when `cfg.checked`,
wrap / masked shift amount otherwise.

`len = 0` is outside the model (`panic "len=0 unmodelled"`): no call site passes it (the MSM cell
mask is the only computed length and is tested to be in 1..=64 first), and every theorem has
`1 ≤ len` as a hypothesis.
-/
namespace Rtcm.Bits

inductive Kind where
  | u | i | sm
  deriving DecidableEq, Repr

/-- A `BitValue` implementor: kind and carrier width (8, 16, 32, 64). -/
structure IT where
  kind : Kind
  w : Nat
  deriving DecidableEq, Repr

def IT.signed (it : IT) : Bool := it.kind != .u

def usizeBits : Nat := 64

/-- signed reading of a `w`-bit pattern -/
def toInt (w p : Nat) : Int := if p < 2 ^ (w - 1) then (p : Int) else (p : Int) - (2 ^ w : Nat)

/-- `w`-bit pattern of an integer (two's complement, wrapping) -/
def ofInt (w : Nat) (z : Int) : Nat := (z % ((2 ^ w : Nat) : Int)).toNat

/-- `usize` subtraction -/
def subU (cfg : Cfg) (a b : Nat) : Res Nat :=
  if b ≤ a then .ok (a - b)
  else if cfg.checked then .panic "attempt to subtract with overflow"
  else .ok (a + 2 ^ usizeBits - b)

/-- `<<` on a `w`-bit carrier: bits shifted out are dropped; amount ≥ w panics when checked,
is masked otherwise -/
def shl (cfg : Cfg) (w p k : Nat) : Res Nat :=
  if k < w then .ok ((p <<< k) % 2 ^ w)
  else if cfg.checked then .panic "attempt to shift left with overflow"
  else .ok ((p <<< (k % w)) % 2 ^ w)

/-- `>>` on a `w`-bit carrier: logical for unsigned, arithmetic for signed -/
def shrRaw (signed : Bool) (w p k : Nat) : Nat :=
  if signed then ofInt w (toInt w p >>> k) else p >>> k

def shr (cfg : Cfg) (signed : Bool) (w p k : Nat) : Res Nat :=
  if k < w then .ok (shrRaw signed w p k)
  else if cfg.checked then .panic "attempt to shift right with overflow"
  else .ok (shrRaw signed w p (k % w))

def allOnes (w : Nat) : Nat := 2 ^ w - 1
def notW (w p : Nat) : Nat := allOnes w ^^^ p
def negW (w p : Nat) : Nat := (2 ^ w - p) % 2 ^ w

/-- `sign_fix_rev` (encode side) -/
def signFixRev (cfg : Cfg) (it : IT) (val len : Nat) : Res Nat :=
  match it.kind with
  | .u => .ok val
  | .i => .ok val
  | .sm => do
    let l1 ← subU cfg len 1
    let bit ← shl cfg it.w 1 l1
    if val &&& bit = 0 then .ok val
    else
      let m1 ← shl cfg it.w (allOnes it.w) l1
      let magnitude := negW it.w val &&& notW it.w m1
      if magnitude = 0 then .ok 0 else .ok (magnitude ||| bit)

/-- `sign_fix` (decode side) -/
def signFix (cfg : Cfg) (it : IT) (val len : Nat) : Res Nat :=
  match it.kind with
  | .u => .ok val
  | .i => do
    let l1 ← subU cfg len 1
    let bit ← shl cfg it.w 1 l1
    if val &&& bit = 0 ∨ len = it.w then .ok val
    else
      let m ← shl cfg it.w (allOnes it.w) len
      .ok (val ||| m)
  | .sm => do
    let l1 ← subU cfg len 1
    let bit ← shl cfg it.w 1 l1
    if val &&& bit = 0 then .ok val
    else
      let m1 ← shl cfg it.w (allOnes it.w) l1
      -- `-1 * (val & !(-1 << (len-1)))`: the operand is non-negative, the product cannot overflow
      .ok (negW it.w (val &&& notW it.w m1))

/-- `val_cast`: `as u8` -/
def valCast (p : Nat) : Nat := p % 256
/-- `u8_cast`: `as $ptype` from `u8` (zero extension; reinterpretation for 8-bit carriers) -/
def u8Cast (_it : IT) (b : Nat) : Nat := b

structure Setup where
  lhSt : Nat
  rhEn : Nat
  sti : Nat
  dlen : Nat
  deriving Repr

/-- the common prologue of `put` and `parse` -/
def setup (cfg : Cfg) (offset len : Nat) : Res Setup := do
  let lhSt := offset % 8
  let lhEn := (offset + len) % 8
  let rhEn := (8 - lhEn) % 8
  let sti := offset / 8
  let e ← subU cfg (offset + len) 1
  let d ← subU cfg (e / 8) sti
  .ok { lhSt, rhEn, sti, dlen := (d + 1) % 2 ^ usizeBits }

/-- mask, number of field bits and `bpos` for byte `i` of `dlen` -/
def byteGeom (cfg : Cfg) (s : Setup) (i : Nat) : Res (Nat × Nat × Nat) := do
  let bset := 255
  let nbits := 8
  let (bset, nbits) ← (if i = 0 then do
      let n ← subU cfg nbits s.lhSt
      pure (bset &&& (255 >>> s.lhSt), n)
    else pure (bset, nbits) : Res (Nat × Nat))
  let dl1 ← subU cfg s.dlen 1
  if i = dl1 then do
    let n ← subU cfg nbits s.rhEn
    pure (bset &&& ((255 <<< s.rhEn) % 256), n, s.rhEn)
  else pure (bset, nbits, 0)

/-- body of the `put` loop for byte `d` at loop index `i`; returns the new byte and `lenlft` -/
def putStep (cfg : Cfg) (it : IT) (s : Setup) (value : Nat) (i lenlft d : Nat) : Res (Nat × Nat) := do
  let (bset, nbits, bpos) ← byteGeom cfg s i
  let lenlft ← subU cfg lenlft nbits
  let tval ← (if bpos ≥ lenlft then do
      let k ← subU cfg bpos lenlft
      shl cfg it.w value k
    else do
      let k ← subU cfg lenlft bpos
      shr cfg it.signed it.w value k : Res Nat)
  let bval := valCast tval
  let d1 := d &&& ((255 ^^^ bset) ||| bval)
  let d2 := d1 ||| (bset &&& bval)
  .ok (d2, lenlft)

/-- `for (i, d) in data.iter_mut().skip(sti).take(dlen).enumerate()`; `ds` is `data[sti..]` -/
def putLoop (cfg : Cfg) (it : IT) (s : Setup) (value : Nat) : Nat → Nat → List Nat → Res (List Nat)
  | _, _, [] => .ok []
  | i, lenlft, d :: ds =>
    if i < s.dlen then do
      let r ← putStep cfg it s value i lenlft d
      let rest ← putLoop cfg it s value (i + 1) r.2 ds
      .ok (r.1 :: rest)
    else .ok (d :: ds)

/-- `Assembler::put::<IT>(value, len)` on buffer `data` at cursor `offset`:
new buffer and new cursor. -/
def put (cfg : Cfg) (it : IT) (data : List Nat) (offset : Nat) (value len : Nat) :
    Res (List Nat × Nat) :=
  if data.length * 8 < offset + len then .err .bufferOverflow
  else if len = 0 then .panic "len=0 unmodelled"
  else do
    let value ← signFixRev cfg it value len
    let s ← setup cfg offset len
    let tail ← putLoop cfg it s value 0 len (data.drop s.sti)
    .ok (data.take s.sti ++ tail, offset + len)

def parseStep (cfg : Cfg) (it : IT) (s : Setup) (i lenlft d val : Nat) : Res (Nat × Nat) := do
  let (bset, nbits, bpos) ← byteGeom cfg s i
  let b := d &&& bset
  let lenlft ← subU cfg lenlft nbits
  if bpos ≥ lenlft then do
    let k ← subU cfg bpos lenlft
    -- `b >>= k` on u8: k < 8 always here; amount ≥ 8 would panic when checked
    let b ← shr cfg false 8 b k
    .ok (val ||| u8Cast it b, lenlft)
  else do
    let k ← subU cfg lenlft bpos
    let sh ← shl cfg it.w (u8Cast it b) k
    .ok (val ||| sh, lenlft)

def parseLoop (cfg : Cfg) (it : IT) (s : Setup) : Nat → Nat → Nat → List Nat → Res Nat
  | _, _, val, [] => .ok val
  | i, lenlft, val, d :: ds =>
    if i < s.dlen then do
      let r ← parseStep cfg it s i lenlft d val
      parseLoop cfg it s (i + 1) r.2 r.1 ds
    else .ok val

/-- `Parser::parse::<IT>(len)`: value pattern and new cursor. -/
def parse (cfg : Cfg) (it : IT) (data : List Nat) (offset len : Nat) : Res (Nat × Nat) :=
  if data.length * 8 < offset + len then .err .bufferOverflow
  else if len = 0 then .panic "len=0 unmodelled"
  else do
    let s ← setup cfg offset len
    let val ← parseLoop cfg it s 0 len 0 (data.drop s.sti)
    let v ← signFix cfg it val len
    .ok (v, offset + len)

/-! ### Abstract view: bit lists, most significant bit first -/

/-- bit `g` (0 = MSB of byte 0) of a buffer -/
def bitAt (data : List Nat) (g : Nat) : Bool := (data.getD (g / 8) 0).testBit (7 - g % 8)

/-- the `len` wire bits of a carrier pattern for a field of kind `k`:
two's complement of `v mod 2^len` for U/I; sign bit then magnitude for SM
(`-0` is never produced: a zero magnitude is written as all zeros). -/
def wireValue (it : IT) (len v : Nat) : Nat :=
  match it.kind with
  | .u | .i => v % 2 ^ len
  | .sm =>
    if v.testBit (len - 1) then
      let mag := (negW it.w v) % 2 ^ (len - 1)
      if mag = 0 then 0 else 2 ^ (len - 1) + mag
    else v % 2 ^ len

/-- bit `j` (0 = first on the wire) of the field -/
def wireBit (it : IT) (len v j : Nat) : Bool := (wireValue it len v).testBit (len - 1 - j)

/-- value pattern read back from the `len` wire bits `x < 2^len` -/
def readValue (it : IT) (len x : Nat) : Nat :=
  match it.kind with
  | .u => x
  | .i => if x.testBit (len - 1) ∧ len ≠ it.w then x + (2 ^ it.w - 2 ^ len) else x
  | .sm => if x.testBit (len - 1) then negW it.w (x % 2 ^ (len - 1)) else x

/-- the number formed by bits `off .. off+len` of the buffer -/
def fieldValue (data : List Nat) (off len : Nat) : Nat :=
  (List.range len).foldl (fun acc j => 2 * acc + (if bitAt data (off + j) then 1 else 0)) 0

end Rtcm.Bits
