import Rtcm.Model.Bias
/-!
# L5: one interpreter for all message layouts (`msg!`, `msg_len_middle!`, `frag_vec*!`, `frag_grid16p!`,
`msm_*_frag!`, hand-written fragments)

`encFrag` consumes a message value as a positional token stream (wire order; the count of a
`msg_len_middle!` list stands where its count field is) and writes bits; `decFrag` reads bits and
produces that token stream. A token stream that no Rust value corresponds to (wrong token kind, list
longer than its capacity) is answered with `panic "tokens…"`; the driver reports it as BAD-OP.
-/
namespace Rtcm.Interp
open Rtcm.Schema Rtcm.Text

abbrev Enc := List Tok → Cur → Res (Cur × List Tok)
abbrev Dec := Cur → Res (List Tok × Cur)

/-- encode `n` consecutive elements -/
def encRepeat (f : Enc) : Nat → Enc
  | 0, ts, c => .ok (c, ts)
  | n + 1, ts, c =>
    match f ts c with
    | .ok (c', ts') => encRepeat f n ts' c'
    | .err e => .err e
    | .panic w => .panic w

def decRepeat (f : Dec) : Nat → Dec
  | 0, c => .ok ([], c)
  | n + 1, c =>
    match f c with
    | .ok (t, c') =>
      match decRepeat f n c' with
      | .ok (ts, c'') => .ok (t ++ ts, c'')
      | .err e => .err e
      | .panic w => .panic w
    | .err e => .err e
    | .panic w => .panic w

/-- split off the tokens of one `df` value -/
def takeDf (s : DfSpec) : List Tok → Option (List Tok × List Tok)
  | .absent :: rest => if s.inv.isSome then some ([.absent], rest) else none
  | .present :: v :: rest => if s.inv.isSome then some ([.present, v], rest) else none
  | v :: rest => if s.inv.isSome then none else some ([v], rest)
  | [] => none

def takeFields : List (String × DfSpec) → List Tok → Option (List (List Tok) × List Tok)
  | [], ts => some ([], ts)
  | (_, s) :: fs, ts =>
    match takeDf s ts with
    | some (t, rest) =>
      match takeFields fs rest with
      | some (tt, rest') => some (t :: tt, rest')
      | none => none
    | none => none

def takeSats (fields : List (String × DfSpec)) : Nat → List Tok → Option (List Msm.SatRow × List Tok)
  | 0, ts => some ([], ts)
  | n + 1, .int id :: ts =>
    match takeFields fields ts with
    | some (f, rest) =>
      match takeSats fields n rest with
      | some (rows, rest') => some ({ id := id.toNat, fields := f } :: rows, rest')
      | none => none
    | none => none
  | _ + 1, _ => none

def takeSigs (fields : List (String × DfSpec)) : Nat → List Tok → Option (List Msm.SigRow × List Tok)
  | 0, ts => some ([], ts)
  | n + 1, .int id :: .sig b a :: ts =>
    match takeFields fields ts with
    | some (f, rest) =>
      match takeSigs fields n rest with
      | some (rows, rest') => some ({ sat := id.toNat, band := b, attr := a, fields := f } :: rows, rest')
      | none => none
    | none => none
  | _ + 1, _ => none

def takeBias (withSat : Bool) : Nat → List Tok → Option (List Bias.Entry × List Tok)
  | 0, ts => some ([], ts)
  | n + 1, ts =>
    let step (sat : Nat) (rest : List Tok) : Option (List Bias.Entry × List Tok) :=
      match rest with
      | .sig b a :: .flt bits :: rest' =>
        match takeBias withSat n rest' with
        | some (es, r) => some ({ sat := sat, band := b, attr := a, bias := bits } :: es, r)
        | none => none
      | _ => none
    if withSat then
      match ts with
      | .int s :: rest => step s.toNat rest
      | _ => none
    else step 0 ts

def biasToks (withSat : Bool) (es : List Bias.Entry) : List Tok :=
  .count es.length :: es.flatMap fun e =>
    (if withSat then [Tok.int e.sat] else []) ++ [.sig e.band e.attr, .flt e.bias]

def satToks (rows : List Msm.SatRow) : List Tok :=
  .count rows.length :: rows.flatMap fun r => .int r.id :: r.fields.flatten

def sigToks (rows : List Msm.SigRow) : List Tok :=
  .count rows.length :: rows.flatMap fun r => .int r.sat :: .sig r.band r.attr :: r.fields.flatten

def params1059 (cap : Nat) (tbl : SigTable) : Bias.Params :=
  { maxSat := 63, satBits := 6, checkSatNum := true, cap := cap, tbl := tbl }
def params1065 (cap : Nat) (tbl : SigTable) : Bias.Params :=
  { maxSat := 31, satBits := 5, checkSatNum := false, cap := cap, tbl := tbl }

def lift {α} (r : Res α) (k : α → Res (Cur × List Tok)) : Res (Cur × List Tok) :=
  match r with
  | .ok a => k a
  | .err e => .err e
  | .panic w => .panic w

mutual
/-- `gloTbl`: the GLONASS MSM table, consulted by the sort inside the 1230 encoder -/
def encFrag (cfg : Cfg) (gloTbl : SigTable) : Frag → Enc
  | .df s, ts, c => Df.encode cfg s ts c
  | .str cap lenBits, ts, c =>
    match ts with
    | .bytes b :: rest =>
      if b.length > cap then .panic "tokens: string longer than capacity"
      else lift (strEncode cfg lenBits (b.map pushNorm) c) fun c' => .ok (c', rest)
    | _ => .panic "tokens: bytes expected"
  | .text1029, ts, c =>
    match ts with
    | .bytes b :: rest =>
      if b.length > 255 ∨ !validUtf8 b then .panic "tokens: not an ArrayString<255>"
      else lift (text1029Encode cfg b c) fun c' => .ok (c', rest)
    | _ => .panic "tokens: bytes expected"
  | .bias1059 cap tbl, ts, c =>
    match ts with
    | .count n :: rest =>
      if n > cap then .panic "tokens: list longer than capacity"
      else match takeBias true n rest with
        | some (es, rest') => lift (Bias.encode cfg (params1059 cap tbl) es c) fun c' => .ok (c', rest')
        | none => .panic "tokens: bias entries expected"
    | _ => .panic "tokens: count expected"
  | .bias1065 cap tbl, ts, c =>
    match ts with
    | .count n :: rest =>
      if n > cap then .panic "tokens: list longer than capacity"
      else match takeBias true n rest with
        | some (es, rest') => lift (Bias.encode cfg (params1065 cap tbl) es c) fun c' => .ok (c', rest')
        | none => .panic "tokens: bias entries expected"
    | _ => .panic "tokens: count expected"
  | .bias1230, ts, c =>
    match ts with
    | .count n :: rest =>
      if n > 4 then .panic "tokens: list longer than capacity"
      else match takeBias false n rest with
        | some (es, rest') => lift (Bias.encode1230 cfg gloTbl es c) fun c' => .ok (c', rest')
        | none => .panic "tokens: bias entries expected"
    | _ => .panic "tokens: count expected"
  | .seq fs, ts, c => encFields cfg gloTbl fs ts c
  | .lenMiddle f1 lenDf f2 elem cap, ts, c =>
    match encFields cfg gloTbl f1 ts c with
    | .ok (c1, ts1) =>
      match ts1 with
      | .count n :: ts2 =>
        if n > cap then .panic "tokens: list longer than capacity"
        else
          match Df.encode cfg lenDf [.int n] c1 with
          | .ok (c2, _) =>
            match encFields cfg gloTbl f2 ts2 c2 with
            | .ok (c3, ts3) => encRepeat (encFrag cfg gloTbl elem) n ts3 c3
            | .err e => .err e
            | .panic w => .panic w
          | .err e => .err e
          | .panic w => .panic w
      | _ => .panic "tokens: count expected"
    | .err e => .err e
    | .panic w => .panic w
  | .vecWithLen elem cap lenBits, ts, c =>
    match ts with
    | .count n :: rest =>
      if n > cap then .panic "tokens: list longer than capacity"
      else
        match Bits.put cfg ⟨.u, 16⟩ c.data c.off (n % 65536) lenBits with
        | .ok (d, o) => encRepeat (encFrag cfg gloTbl elem) n rest { data := d, off := o }
        | .err e => .err e
        | .panic w => .panic w
    | _ => .panic "tokens: count expected"
  | .grid16 elem, ts, c => encRepeat (encFrag cfg gloTbl elem) 16 ts c
  | .msm tbl satFields sigFields, ts, c =>
    match ts with
    | .count ns :: rest =>
      if ns > 64 then .panic "tokens: list longer than capacity"
      else match takeSats satFields ns rest with
        | some (sats, .count ng :: rest2) =>
          if ng > 64 then .panic "tokens: list longer than capacity"
          else match takeSigs sigFields ng rest2 with
            | some (sigs, rest3) =>
              lift (Msm.encode cfg tbl satFields sigFields sats sigs c) fun c' => .ok (c', rest3)
            | none => .panic "tokens: signal rows expected"
        | _ => .panic "tokens: satellite rows expected"
    | _ => .panic "tokens: count expected"
def encFields (cfg : Cfg) (gloTbl : SigTable) : Fields → Enc
  | .nil, ts, c => .ok (c, ts)
  | .cons _ f rest, ts, c =>
    match encFrag cfg gloTbl f ts c with
    | .ok (c', ts') => encFields cfg gloTbl rest ts' c'
    | .err e => .err e
    | .panic w => .panic w
end

mutual
def decFrag (cfg : Cfg) : Frag → Dec
  | .df s, c => Df.decode cfg s c
  | .str cap lenBits, c =>
    match strDecode cfg cap lenBits c with
    | .ok (b, c') => .ok ([.bytes b], c')
    | .err e => .err e
    | .panic w => .panic w
  | .text1029, c =>
    match text1029Decode cfg c with
    | .ok (b, c') => .ok ([.bytes b], c')
    | .err e => .err e
    | .panic w => .panic w
  | .bias1059 cap tbl, c =>
    match Bias.decode cfg (params1059 cap tbl) c with
    | .ok (es, c') => .ok (biasToks true es, c')
    | .err e => .err e
    | .panic w => .panic w
  | .bias1065 cap tbl, c =>
    match Bias.decode cfg (params1065 cap tbl) c with
    | .ok (es, c') => .ok (biasToks true es, c')
    | .err e => .err e
    | .panic w => .panic w
  | .bias1230, c =>
    match Bias.decode1230 cfg c with
    | .ok (es, c') => .ok (biasToks false es, c')
    | .err e => .err e
    | .panic w => .panic w
  | .seq fs, c => decFields cfg fs c
  | .lenMiddle f1 lenDf f2 elem cap, c =>
    match decFields cfg f1 c with
    | .ok (t1, c1) =>
      match Df.decode cfg lenDf c1 with
      | .ok ([.int n], c2) =>
        match decFields cfg f2 c2 with
        | .ok (t2, c3) =>
          if n.toNat > cap then .err .capacityExceeded
          else
            match decRepeat (decFrag cfg elem) n.toNat c3 with
            | .ok (te, c4) => .ok (t1 ++ [.count n.toNat] ++ t2 ++ te, c4)
            | .err e => .err e
            | .panic w => .panic w
        | .err e => .err e
        | .panic w => .panic w
      | .ok _ => .panic "count field did not decode to an integer"
      | .err e => .err e
      | .panic w => .panic w
    | .err e => .err e
    | .panic w => .panic w
  | .vecWithLen elem cap lenBits, c =>
    match Bits.parse cfg ⟨.u, 16⟩ c.data c.off lenBits with
    | .ok (n, o) =>
      if n > cap then .err .capacityExceeded
      else
        match decRepeat (decFrag cfg elem) n { c with off := o } with
        | .ok (te, c') => .ok (.count n :: te, c')
        | .err e => .err e
        | .panic w => .panic w
    | .err e => .err e
    | .panic w => .panic w
  | .grid16 elem, c => decRepeat (decFrag cfg elem) 16 c
  | .msm tbl satFields sigFields, c =>
    match Msm.decode cfg tbl satFields sigFields c with
    | .ok (sats, sigs, c') => .ok (satToks sats ++ sigToks sigs, c')
    | .err e => .err e
    | .panic w => .panic w
def decFields (cfg : Cfg) : Fields → Dec
  | .nil, c => .ok ([], c)
  | .cons _ f rest, c =>
    match decFrag cfg f c with
    | .ok (t, c') =>
      match decFields cfg rest c' with
      | .ok (ts, c'') => .ok (t ++ ts, c'')
      | .err e => .err e
      | .panic w => .panic w
    | .err e => .err e
    | .panic w => .panic w
end

end Rtcm.Interp
