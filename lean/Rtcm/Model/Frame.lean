import Rtcm.Model.Crc
/-!
# L1: `MessageFrame::new` (src/message_frame.rs)

Same order of tests as the code: slice shorter than 6 → Incomplete (before the preamble is
looked at), preamble, announced extent, checksum. The message number is present iff the
frame's own length field is at least 2 (repair D1).
-/
namespace Rtcm

structure Frame where
  /-- `frame_data()`: the L+6 bytes of the frame -/
  frameData : List UInt8
  /-- `data()`: the L payload bytes -/
  data : List UInt8
  crc : Nat
  number : Option Nat
  deriving DecidableEq, Repr

def Frame.frameLen (f : Frame) : Nat := f.frameData.length
def Frame.dataLen (f : Frame) : Nat := f.data.length

inductive FrameErr where
  | incomplete | notValid
  deriving DecidableEq, Repr

/-- byte `i` of the slice as a number (0 outside; every use below is guarded by a length test) -/
def byteAt (d : List UInt8) (i : Nat) : Nat := (d.getD i 0).toNat

/-- the 10-bit length field -/
def lenField (d : List UInt8) : Nat := ((byteAt d 1 &&& 3) <<< 8) ||| byteAt d 2

/-- three bytes at `i`, big endian -/
def be24 (d : List UInt8) (i : Nat) : Nat :=
  (byteAt d i <<< 16) ||| (byteAt d (i + 1) <<< 8) ||| byteAt d (i + 2)

def frameNew (d : List UInt8) : Except FrameErr Frame :=
  if d.length < 6 then .error .incomplete
  else if byteAt d 0 ≠ 0xd3 then .error .notValid
  else
    let L := lenField d
    if d.length < L + 6 then .error .incomplete
    else
      let msgCrc := be24 d (L + 3)
      if msgCrc ≠ crc24q (d.take (L + 3)) then .error .notValid
      else
        .ok { frameData := d.take (L + 6)
              data := (d.drop 3).take L
              crc := msgCrc
              number := if 2 ≤ L then some ((byteAt d 3 <<< 4) ||| (byteAt d 4 >>> 4)) else none }

/-- Reference frame construction used by theorems and generators: header, payload, CRC. -/
def frameHeader (resv : Nat) (L : Nat) : List UInt8 :=
  [0xd3, UInt8.ofNat (((resv % 64) <<< 2) ||| (L >>> 8)), UInt8.ofNat (L % 256)]

def crcBytes (c : Nat) : List UInt8 :=
  [UInt8.ofNat ((c >>> 16) % 256), UInt8.ofNat ((c >>> 8) % 256), UInt8.ofNat (c % 256)]

/-- A frame around `payload` with arbitrary reserved bits `resv` (0 is what the builder writes). -/
def mkFrame (resv : Nat) (payload : List UInt8) : List UInt8 :=
  let body := frameHeader resv payload.length ++ payload
  body ++ crcBytes (crc24q body)

end Rtcm
