import Rtcm.Model.Text
/-!
# L6: the hand-written `Serialize` / `Deserialize` of `Df88591String` and `ArrayString`
(src/util/mod.rs after repair D6, src/util/array_string.rs). The derived impls of the message
structs and the data format (serde, serde_derive, serde_json) are not modelled.
-/
namespace Rtcm.Serde
open Rtcm.Text

/-- `Serialize for Df88591String`: the characters of the string (`collect_str` over `chars()`) -/
def ser88591 (bytes : List Nat) : List Nat := df88591Chars bytes

/-- `visit_str`: `for ch in v.chars().take(N) { push_char(ch) }` -/
def de88591 (N : Nat) (chars : List Nat) : List Nat := (chars.take N).map fromChar

/-- `Serialize for ArrayString`: `serialize_str(&*self)`; the value is given by its characters -/
def serAstr (chars : List Nat) : List Nat := chars

/-- `visit_str`: `try_push` each character until one does not fit -/
def deAstr (N : Nat) (chars : List Nat) : List Nat := arrayStringFrom N chars

end Rtcm.Serde
