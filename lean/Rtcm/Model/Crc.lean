import Rtcm.Model.Basic
/-!
# L1: CRC-24Q, as a specification

The checksum of RTCM 3 is the remainder of `M(x)·x^24` modulo the generator
`0x1864CFB`, zero initial value, no reflection, no final xor. It is written here as the
textbook bit-serial long division (`crcStep` shifts one message bit into the low end of the
remainder and subtracts the generator when bit 24 appears). The implementation delegates to
crc-any's `crc24lte_a`; the tie is the correspondence check, plus an independent bitwise
CRC inside the harness.
-/
namespace Rtcm

/-- Generator polynomial of CRC-24Q, including the x^24 term. -/
def crcG : Nat := 0x1864CFB

/-- One step of polynomial long division: shift in message bit `b`, reduce. -/
def crcStep (s : Nat) (b : Bool) : Nat :=
  let t := 2 * s + (if b then 1 else 0)
  if t.testBit 24 then t ^^^ crcG else t

/-- Remainder after shifting `bits` into state `s`. -/
def crcRem (s : Nat) (bits : List Bool) : Nat := bits.foldl crcStep s

/-- Bits of a byte, most significant first. -/
def bitsOfByte (b : UInt8) : List Bool :=
  [b.toNat.testBit 7, b.toNat.testBit 6, b.toNat.testBit 5, b.toNat.testBit 4,
   b.toNat.testBit 3, b.toNat.testBit 2, b.toNat.testBit 1, b.toNat.testBit 0]

def bitsOfBytes (d : List UInt8) : List Bool := d.flatMap bitsOfByte

def crcByte (s : Nat) (b : UInt8) : Nat := crcRem s (bitsOfByte b)

/-- Remainder of the message polynomial itself (no multiplication by x^24). -/
def crcRemBytes (s : Nat) (d : List UInt8) : Nat := d.foldl crcByte s

/-- CRC-24Q of a byte string: remainder of `M(x)·x^24`. -/
def crc24q (d : List UInt8) : Nat := crcRem (crcRemBytes 0 d) (List.replicate 24 false)

end Rtcm
