import Rtcm.Model.Message
/-!
# L5: `MessageBuilder::build_generated_message` (src/msg/message.rs, feature `test_gen`)

The second entry point of the builder. It shares prologue and epilogue with `build_message`
(`Builder.build`, Model/Message.lean):

* prologue: `if has_run { clear_data() }`, `has_run = true`, an `Assembler` over `data[3..1026]`
  at bit 0, the 12-bit message number;
* body: `$msg_id::generate(&mut asm, val_gen)?`, a sequence of `asm.put` calls whose values come
  from random generators instead of a message value;
* epilogue: length header from the cursor, CRC over `data[..data_len+3]`, three CRC bytes, the
  returned slice `data[..data_len+6]`.

The body is a parameter here: a `BodyWriter` is any function on the bit-writer state `Cur`
(Model/Df.lean, the state `Interp.encFrag` works on), so the random generators, whatever they draw,
are covered by quantifying over it.
-/
namespace Rtcm.Message
open Rtcm.Schema

/-- the body of a generated message: what `$msg_id::generate(&mut asm, val_gen)` does to the
assembler (buffer = the 1023-byte window `data[3..1026]`, bit cursor), or its error / panic -/
abbrev BodyWriter := Cur → Res Cur

/-- `build_generated_message(val_gen, message_number)`: the builder after the call, and the
returned slice or error.

`w` is the arm of `match message_number` that the number selects: `some body` for a number that
has an arm in this build, `none` for the `_ => return Err(EncodingNotSupported)` arm. In the
latter case the 12-bit number *has* been written (`asm.put` precedes the `match`), so the
builder keeps `put w1`, not the wiped buffer. There is no table lookup (the Rust code matches on
the number itself) and no trailing-token test (there is no message value).

As in `Builder.build`, a body that fails with `.err` / `.panic` yields no cursor, so the model keeps
the buffer as it was after the number (`put w1`); in Rust the bytes written before the failure stay
in `data[3..1026]`. The difference is invisible to every later call: those bytes lie in
`data[1..]`, which the next call wipes first (`C12.inv_buildGen` needs nothing about `w` on that
path for this reason). -/
def Builder.buildGen (cfg : Cfg) (b : Builder) (n : Nat) (w : Option BodyWriter) :
    Builder × Res (List Nat) :=
  let data := if b.hasRun then clearData b.data else b.data
  let window := (data.drop 3).take 1023
  let put (w : List Nat) : List Nat := data.take 3 ++ w ++ data.drop 1026
  match Bits.put cfg ⟨.u, 16⟩ window 0 n 12 with
  | .ok (w1, o1) =>
    match w with
    | some body =>
      match body { data := w1, off := o1 } with
      | .ok c =>
        let dataLen := (c.off - 1) / 8 + 1
        let d1 := put c.data
        let d2 := (d1.set 1 ((dataLen >>> 8) % 256)).set 2 (dataLen % 256)
        let crc := crc24q ((d2.take (dataLen + 3)).map UInt8.ofNat)
        let d3 := ((d2.set (dataLen + 3) ((crc >>> 16) % 256)).set (dataLen + 4) ((crc >>> 8) % 256)).set
                    (dataLen + 5) (crc % 256)
        ({ data := d3, hasRun := true }, .ok (d3.take (dataLen + 6)))
      | .err e => ({ data := put w1, hasRun := true }, .err e)
      | .panic s => ({ data := put w1, hasRun := true }, .panic s)
    | none => ({ data := put w1, hasRun := true }, .err .encodingNotSupported)
  | .err e => ({ data := data, hasRun := true }, .err e)
  | .panic s => ({ data := data, hasRun := true }, .panic s)

/-- one use of a builder through either entry point -/
inductive Step where
  /-- `build_message(&m)` -/
  | msg (m : Msg)
  /-- `build_generated_message(val_gen, n)`, with the body the number selects (see `buildGen`) -/
  | gen (n : Nat) (w : Option BodyWriter)

/-- run one step: the builder after the call, and what the call returned -/
def Builder.step (cfg : Cfg) (tbl : List MsgRow) (gloTbl : SigTable) (b : Builder) :
    Step → Builder × Res (List Nat)
  | .msg m => b.build cfg tbl gloTbl m
  | .gen n w => b.buildGen cfg n w

/-- run a sequence of steps on one builder; the results in order -/
def stepSeq (cfg : Cfg) (tbl : List MsgRow) (gloTbl : SigTable) : Builder → List Step → List (Res (List Nat))
  | _, [] => []
  | b, s :: ss =>
    let r := b.step cfg tbl gloTbl s
    r.2 :: stepSeq cfg tbl gloTbl r.1 ss

end Rtcm.Message
