import Rtcm.Model.Basic
/-!
# L3: IEEE-754 binary32 / binary64 as used by the crate (`f32`, `f64`)

Every operation is: exact rational result, then one round-to-nearest-even to the format
(`roundMag`), with the IEEE special cases for NaN, infinities and signed zeros. Casts follow the
Rust reference (`as`: saturating, truncating, NaN ↦ 0). Values travel as bit patterns.
Import-free: core `Rat`, `Rat.floor`, `Nat.log2`.
-/
namespace Rtcm.SoftFloat

structure Fmt where
  /-- precision in bits, including the hidden bit -/
  p : Nat
  emin : Int
  emax : Int
  /-- exponent field width -/
  ebits : Nat
  deriving DecidableEq, Repr

def binary32 : Fmt := { p := 24, emin := -126, emax := 127, ebits := 8 }
def binary64 : Fmt := { p := 53, emin := -1022, emax := 1023, ebits := 11 }

/-- a floating-point datum; `fin neg mag` with `mag ≥ 0` (zero carries its sign) -/
inductive F where
  | nan
  | inf (neg : Bool)
  | fin (neg : Bool) (mag : Rat)
  deriving DecidableEq, Repr

def pow2 (e : Int) : Rat :=
  if 0 ≤ e then ((2 ^ e.toNat : Nat) : Rat) else 1 / ((2 ^ (-e).toNat : Nat) : Rat)

/-- ⌊log2 x⌋ for x > 0 -/
def ilog2 (x : Rat) : Int :=
  let e0 : Int := (Nat.log2 x.num.toNat : Int) - (Nat.log2 x.den : Int)
  if x < pow2 e0 then e0 - 1 else e0

/-- nearest integer to `q ≥ 0`, ties to even -/
def rneInt (q : Rat) : Int :=
  let n := q.floor
  let f := q - n
  if f < 1/2 then n else if 1/2 < f then n + 1 else if n % 2 = 0 then n else n + 1

/-- round a magnitude `x ≥ 0` to the format (gradual underflow below `emin`); `none` = overflow -/
def roundMag (fmt : Fmt) (x : Rat) : Option Rat :=
  if x = 0 then some 0
  else
    let e := max (ilog2 x) fmt.emin
    let t := e - ((fmt.p : Int) - 1)
    let r := (rneInt (x / pow2 t) : Rat) * pow2 t
    if pow2 (fmt.emax + 1) ≤ r then none else some r

/-- round an exact real to the format -/
def round (fmt : Fmt) (x : Rat) : F :=
  let neg := decide (x < 0)
  match roundMag fmt (if x < 0 then -x else x) with
  | some m => .fin neg m
  | none => .inf neg

/-- signed rational value of a finite datum -/
def F.toRat : F → Rat
  | .fin neg m => if neg then -m else m
  | _ => 0

def F.isFinite : F → Bool
  | .fin _ _ => true
  | _ => false

def F.isNegZero : F → Bool
  | .fin true m => m == 0
  | _ => false

def zero : F := .fin false 0

/-- exact-result rounding with the IEEE sign-of-zero rule for sums (`x + (-x) = +0`) -/
def roundSum (fmt : Fmt) (x : Rat) (bothNegZero : Bool) : F :=
  if x = 0 then .fin bothNegZero 0 else round fmt x

def add (fmt : Fmt) (a b : F) : F :=
  match a, b with
  | .nan, _ => .nan
  | _, .nan => .nan
  | .inf s, .inf t => if s = t then .inf s else .nan
  | .inf s, _ => .inf s
  | _, .inf t => .inf t
  | .fin s x, .fin t y =>
    roundSum fmt ((F.fin s x).toRat + (F.fin t y).toRat) (s && t && x == 0 && y == 0)

def neg : F → F
  | .nan => .nan
  | .inf s => .inf (!s)
  | .fin s x => .fin (!s) x

def sub (fmt : Fmt) (a b : F) : F := add fmt a (neg b)

def mul (fmt : Fmt) (a b : F) : F :=
  match a, b with
  | .nan, _ => .nan
  | _, .nan => .nan
  | .inf s, .inf t => .inf (s != t)
  | .inf s, .fin t y => if y = 0 then .nan else .inf (s != t)
  | .fin s x, .inf t => if x = 0 then .nan else .inf (s != t)
  | .fin s x, .fin t y =>
    match roundMag fmt (x * y) with
    | some m => .fin (s != t) m
    | none => .inf (s != t)

def div (fmt : Fmt) (a b : F) : F :=
  match a, b with
  | .nan, _ => .nan
  | _, .nan => .nan
  | .inf _, .inf _ => .nan
  | .inf s, .fin t _ => .inf (s != t)
  | .fin s _, .inf t => .fin (s != t) 0
  | .fin s x, .fin t y =>
    if y = 0 then (if x = 0 then .nan else .inf (s != t))
    else
      match roundMag fmt (x / y) with
      | some m => .fin (s != t) m
      | none => .inf (s != t)

/-- `a >= b` (false if either is NaN; -0 = +0) -/
def ge (a b : F) : Bool :=
  match a, b with
  | .nan, _ => false
  | _, .nan => false
  | .inf s, .inf t => !s || t
  | .inf s, .fin _ _ => !s
  | .fin _ _, .inf t => t
  | .fin s x, .fin t y => decide ((F.fin t y).toRat ≤ (F.fin s x).toRat)

/-- `a > b` -/
def gt (a b : F) : Bool :=
  match a, b with
  | .nan, _ => false
  | _, .nan => false
  | .inf s, .inf t => !s && t
  | .inf s, .fin _ _ => !s
  | .fin _ _, .inf t => t
  | .fin s x, .fin t y => decide ((F.fin t y).toRat < (F.fin s x).toRat)

/-- integer → float conversion (`as f32` / `as f64`) -/
def ofInt (fmt : Fmt) (z : Int) : F := round fmt (z : Rat)

/-- truncation toward zero of a rational -/
def truncRat (x : Rat) : Int := if x < 0 then -((-x).floor) else x.floor

/-- float → integer `as` cast: NaN ↦ 0, saturating at `lo`/`hi`, truncating toward zero -/
def toIntSat (a : F) (lo hi : Int) : Int :=
  match a with
  | .nan => 0
  | .inf s => if s then lo else hi
  | .fin s x =>
    let t := truncRat ((F.fin s x).toRat)
    if t < lo then lo else if hi < t then hi else t

/-! ### bit patterns -/

def mantBits (fmt : Fmt) : Nat := fmt.p - 1
def bias (fmt : Fmt) : Int := fmt.emax
def totalBits (fmt : Fmt) : Nat := 1 + fmt.ebits + mantBits fmt

/-- decode an IEEE bit pattern -/
def ofBits (fmt : Fmt) (b : Nat) : F :=
  let mb := mantBits fmt
  let mant := b % 2 ^ mb
  let ex := (b / 2 ^ mb) % 2 ^ fmt.ebits
  let sign := (b / 2 ^ (mb + fmt.ebits)) % 2 = 1
  if ex = 2 ^ fmt.ebits - 1 then (if mant = 0 then .inf sign else .nan)
  else if ex = 0 then .fin sign ((mant : Rat) * pow2 (fmt.emin - mb))
  else .fin sign (((2 ^ mb + mant : Nat) : Rat) * pow2 ((ex : Int) - bias fmt - mb))

/-- encode a datum that is representable in the format (NaN ↦ canonical quiet NaN) -/
def toBits (fmt : Fmt) (a : F) : Nat :=
  let mb := mantBits fmt
  let signBit (s : Bool) : Nat := if s then 2 ^ (mb + fmt.ebits) else 0
  match a with
  | .nan => (2 ^ fmt.ebits - 1) * 2 ^ mb + 2 ^ (mb - 1)
  | .inf s => signBit s + (2 ^ fmt.ebits - 1) * 2 ^ mb
  | .fin s x =>
    if x = 0 then signBit s
    else
      let e := ilog2 x
      if e < fmt.emin then
        signBit s + (x / pow2 (fmt.emin - mb)).floor.toNat
      else
        let m := (x / pow2 (e - mb)).floor.toNat   -- in [2^mb, 2^(mb+1))
        signBit s + ((e + bias fmt).toNat) * 2 ^ mb + (m - 2 ^ mb)

end Rtcm.SoftFloat
