/-!
# L0: results, errors, build profile

Import-free (core Lean only) so that the driver links as a `lean_exe`.
Mirrors `src/rtcm_error.rs`; `panic` stands for a Rust panic (caught by the harness with
`catch_unwind`), `Cfg.checked` for a build with `overflow-checks = true`.
-/
deriving instance DecidableEq for Except

namespace Rtcm

inductive RtcmError where
  | notValid | incomplete | bufferOverflow | capacityExceeded | encodingNotSupported
  | duplicateSatellite | invalidSatelliteId | invalidSignalId | satelliteMismatch
  | duplicateSatelliteSignal | invalidSatelliteSignalCount | outOfRange | invalidUtf8String
  deriving DecidableEq, Repr, Inhabited

def RtcmError.name : RtcmError → String
  | .notValid => "NotValid" | .incomplete => "Incomplete" | .bufferOverflow => "BufferOverflow"
  | .capacityExceeded => "CapacityExceeded" | .encodingNotSupported => "EncodingNotSupported"
  | .duplicateSatellite => "DuplicateSatellite" | .invalidSatelliteId => "InvalidSatelliteId"
  | .invalidSignalId => "InvalidSignalId" | .satelliteMismatch => "SatelliteMismatch"
  | .duplicateSatelliteSignal => "DuplicateSatelliteSignal"
  | .invalidSatelliteSignalCount => "InvalidSatelliteSignalCount"
  | .outOfRange => "OutOfRange" | .invalidUtf8String => "InvalidUtf8String"

/-- Outcome of a modelled Rust function: value, `Err(RtcmError)`, or a panic. -/
inductive Res (α : Type) where
  | ok (a : α)
  | err (e : RtcmError)
  | panic (why : String)
  deriving Repr

namespace Res
@[inline] def bind {α β} (r : Res α) (f : α → Res β) : Res β :=
  match r with
  | .ok a => f a
  | .err e => .err e
  | .panic w => .panic w
instance : Monad Res where
  pure := .ok
  bind := Res.bind
def isPanic {α} : Res α → Bool
  | .panic _ => true
  | _ => false
def isOk {α} : Res α → Bool
  | .ok _ => true
  | _ => false
@[simp] theorem bind_ok {α β} (a : α) (f : α → Res β) : (Res.ok a >>= f) = f a := rfl
@[simp] theorem bind_err {α β} (e : RtcmError) (f : α → Res β) : (Res.err e >>= f) = .err e := rfl
@[simp] theorem bind_panic {α β} (w : String) (f : α → Res β) : (Res.panic w >>= f) = .panic w := rfl
end Res

/-- Build profile: `checked = true` models `overflow-checks = true`. -/
structure Cfg where
  checked : Bool
  deriving Repr, DecidableEq

/-- A byte. Kept as `UInt8` at frame level; the bit packer works on `Nat` views of it. -/
abbrev Byte := UInt8

def hexDigit (n : Nat) : Char :=
  if n < 10 then Char.ofNat (48 + n) else Char.ofNat (87 + n)

def hexOfBytes (bs : List UInt8) : String :=
  String.ofList (bs.foldr (fun b acc => hexDigit (b.toNat / 16) :: hexDigit (b.toNat % 16) :: acc) [])

def hexVal (c : Char) : Option Nat :=
  if '0' ≤ c ∧ c ≤ '9' then some (c.toNat - 48)
  else if 'a' ≤ c ∧ c ≤ 'f' then some (c.toNat - 87)
  else if 'A' ≤ c ∧ c ≤ 'F' then some (c.toNat - 55)
  else none

def bytesOfHexAux : List Char → List UInt8 → Option (List UInt8)
  | [], acc => some acc.reverse
  | [_], _ => none
  | a :: b :: rest, acc =>
    match hexVal a, hexVal b with
    | some x, some y => bytesOfHexAux rest (UInt8.ofNat (16 * x + y) :: acc)
    | _, _ => none

/-- `-` stands for the empty byte string on the wire protocol. -/
def bytesOfHex (s : String) : Option (List UInt8) :=
  if s = "-" then some [] else bytesOfHexAux s.toList []

def hexOrDash (bs : List UInt8) : String := if bs.isEmpty then "-" else hexOfBytes bs

end Rtcm
