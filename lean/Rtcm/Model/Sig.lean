import Rtcm.Model.Schema
/-!
# L4 signals: `msm_mappings!` / `sig_mappings!` lookups and `Ord for SigId`
-/
namespace Rtcm.Sig
open Rtcm.Schema

/-- `to_id`: first matching row (Rust `match`) -/
def toId (tbl : SigTable) (band attr : Nat) : Option Nat :=
  (tbl.find? fun r => r.2.1 == band && r.2.2 == attr).map (·.1)

/-- `to_sig` -/
def toSig (tbl : SigTable) (id : Nat) : Option (Nat × Nat) :=
  (tbl.find? fun r => r.1 == id).map (·.2)

def isValid (tbl : SigTable) (band attr : Nat) : Bool := (toId tbl band attr).isSome

/-- `Ord::cmp` for `SigId` -/
def cmp (tbl : SigTable) (a b : Nat × Nat) : Ordering :=
  match toId tbl a.1 a.2, toId tbl b.1 b.2 with
  | some l, some r => compare l r
  | none, some _ => .gt
  | some _, none => .lt
  | none, none =>
    match compare a.1 b.1 with
    | .lt => .lt
    | .eq => compare a.2 b.2
    | .gt => .gt

/-- `PartialOrd::partial_cmp` for `SigId`: defined only between recognised descriptors (the encoders use
`Ord`, as C18 does; this is the other comparison the public type offers) -/
def partialCmp (tbl : SigTable) (a b : Nat × Nat) : Option Ordering :=
  match toId tbl a.1 a.2, toId tbl b.1 b.2 with
  | some l, some r => some (compare l r)
  | _, _ => none

/-- stable insertion sort by a comparison (`sort_unstable_by` is modelled as *a* sort; the encoders
only sort keys that were checked to be distinct, where every sort gives the same result) -/
def insertBy {α} (le : α → α → Bool) (x : α) : List α → List α
  | [] => [x]
  | y :: ys => if le x y then x :: y :: ys else y :: insertBy le x ys

def sortBy {α} (le : α → α → Bool) : List α → List α
  | [] => []
  | x :: xs => insertBy le x (sortBy le xs)

end Rtcm.Sig
