import Rtcm.Model.Df
/-!
# L4 text: `Df88591String`, `ArrayString`, `df_88591_string_with_len!`, the 1029 UTF-8 text field

Strings are lists of Unicode scalar values (`Nat` code points); buffers are byte lists.
`core::str::from_utf8` is modelled by core Lean's verified `ByteArray.validateUTF8`.
-/
namespace Rtcm.Text
open Rtcm.Bits

/-- `Df88591StringChars::from_char` -/
def fromChar (c : Nat) : Nat := if 0 < c ∧ c < 256 then c else 0xA4
/-- `Df88591StringChars::to_char` -/
def toChar (b : Nat) : Nat := if b = 0 then 0xA4 else b
/-- `Df88591String::push`: a zero byte is stored as 0xA4 -/
def pushNorm (b : Nat) : Nat := if b = 0 then 0xA4 else b

/-- `Df88591String::<N>::from(&str)`: `try_push` until the capacity is reached -/
def df88591From (N : Nat) (s : List Nat) : List Nat := (s.take N).map fromChar
/-- `.chars()` -/
def df88591Chars (bytes : List Nat) : List Nat := bytes.map toChar

def utf8Len (c : Nat) : Nat := if c < 0x80 then 1 else if c < 0x800 then 2 else if c < 0x10000 then 3 else 4

def utf8Enc (c : Nat) : List Nat :=
  if c < 0x80 then [c]
  else if c < 0x800 then [0xC0 + c / 64, 0x80 + c % 64]
  else if c < 0x10000 then [0xE0 + c / 4096, 0x80 + (c / 64) % 64, 0x80 + c % 64]
  else [0xF0 + c / 262144, 0x80 + (c / 4096) % 64, 0x80 + (c / 64) % 64, 0x80 + c % 64]

/-- `ArrayString::<N>::from(&str)`: push whole characters while they fit; stop at the first that does not -/
def arrayStringFromAux (N : Nat) : List Nat → List Nat → List Nat
  | [], acc => acc
  | c :: cs, acc => if acc.length + utf8Len c > N then acc else arrayStringFromAux N cs (acc ++ utf8Enc c)

def arrayStringFrom (N : Nat) (s : List Nat) : List Nat := arrayStringFromAux N s []

def toByteArray (b : List Nat) : ByteArray := ByteArray.mk (b.map UInt8.ofNat).toArray

/-- `core::str::from_utf8(..).is_ok()` -/
def validUtf8 (b : List Nat) : Bool := (toByteArray b).validateUTF8

/-- number of characters of a valid UTF-8 byte string = number of non-continuation bytes -/
def charCount (b : List Nat) : Nat := (b.filter fun x => x / 64 ≠ 2).length

/-! ### wire codecs -/

def putU (cfg : Cfg) (w v len : Nat) (c : Cur) : Res Cur :=
  match Bits.put cfg ⟨.u, w⟩ c.data c.off v len with
  | .ok (d, o) => .ok { data := d, off := o }
  | .err e => .err e
  | .panic p => .panic p

def parseU (cfg : Cfg) (w len : Nat) (c : Cur) : Res (Nat × Cur) :=
  match Bits.parse cfg ⟨.u, w⟩ c.data c.off len with
  | .ok (v, o) => .ok (v, { c with off := o })
  | .err e => .err e
  | .panic p => .panic p

def putBytes (cfg : Cfg) : List Nat → Cur → Res Cur
  | [], c => .ok c
  | b :: bs, c =>
    match putU cfg 8 b 8 c with
    | .ok c' => putBytes cfg bs c'
    | .err e => .err e
    | .panic p => .panic p

def parseBytes (cfg : Cfg) : Nat → Cur → Res (List Nat × Cur)
  | 0, c => .ok ([], c)
  | n + 1, c =>
    match parseU cfg 8 8 c with
    | .ok (b, c') =>
      match parseBytes cfg n c' with
      | .ok (bs, c'') => .ok (b :: bs, c'')
      | .err e => .err e
      | .panic p => .panic p
    | .err e => .err e
    | .panic p => .panic p

/-- `df_88591_string_with_len!` encode; `bytes` are the stored bytes (no zero byte, ≤ cap) -/
def strEncode (cfg : Cfg) (lenBits : Nat) (bytes : List Nat) (c : Cur) : Res Cur :=
  match putU cfg 8 (bytes.length % 256) lenBits c with
  | .ok c' => putBytes cfg bytes c'
  | .err e => .err e
  | .panic p => .panic p

def strDecode (cfg : Cfg) (cap lenBits : Nat) (c : Cur) : Res (List Nat × Cur) :=
  match parseU cfg 8 lenBits c with
  | .ok (len, c') =>
    if len > cap then .err .capacityExceeded
    else
      match parseBytes cfg len c' with
      | .ok (bs, c'') => .ok (bs.map pushNorm, c'')
      | .err e => .err e
      | .panic p => .panic p
  | .err e => .err e
  | .panic p => .panic p

/-- df_msg1029_utf8_str encode; `bytes` is the UTF-8 content of an `ArrayString<255>` -/
def text1029Encode (cfg : Cfg) (bytes : List Nat) (c : Cur) : Res Cur :=
  let byteLen := bytes.length
  let charLen := charCount bytes
  if byteLen > 255 ∨ charLen > 127 then .err .bufferOverflow
  else
    match putU cfg 8 charLen 7 c with
    | .ok c1 =>
      match putU cfg 8 byteLen 8 c1 with
      | .ok c2 => putBytes cfg bytes c2
      | .err e => .err e
      | .panic p => .panic p
    | .err e => .err e
    | .panic p => .panic p

def text1029Decode (cfg : Cfg) (c : Cur) : Res (List Nat × Cur) :=
  match parseU cfg 8 7 c with
  | .ok (_, c1) =>
    match parseU cfg 8 8 c1 with
    | .ok (len, c2) =>
      -- `par.data()`: the bytes from `offset / 8` (floor) on
      let data := c2.data.drop (c2.off / 8)
      if data.length < len then .err .bufferOverflow
      else if validUtf8 (data.take len) then
        .ok (arrayStringFrom255 (data.take len), { c2 with off := c2.off + len * 8 })
      else .err .invalidUtf8String
    | .err e => .err e
    | .panic p => .panic p
  | .err e => .err e
  | .panic p => .panic p
where
  /-- `ArrayString::<255>::from(valid str)` with at most 255 bytes keeps everything -/
  arrayStringFrom255 (b : List Nat) : List Nat := b

end Rtcm.Text
