import Rtcm.Model.Interp
import Rtcm.Model.Frame
/-!
# L5: `message!` — `Message::from_message_frame`, `Message::number`, `MessageBuilder`
(src/msg/message.rs)
-/
namespace Rtcm.Message
open Rtcm.Schema

/-- a `Message` value: the three variants without a wire form, or a typed variant given by its
number and its positional token stream -/
inductive Msg where
  | empty
  | corrupt
  | notSupported (n : Nat)
  | typed (n : Nat) (toks : List Tok)
  deriving Repr, DecidableEq

def findRow (tbl : List MsgRow) (n : Nat) : Option MsgRow := tbl.find? (·.number == n)

/-- `Message::from_message_frame` -/
def decodeFrame (cfg : Cfg) (tbl : List MsgRow) (f : Frame) : Res Msg :=
  match f.number with
  | none => .ok .empty
  | some n =>
    match findRow tbl n with
    | none => .ok (.notSupported n)
    | some row =>
      match Interp.decFrag cfg row.frag { data := f.data.map (·.toNat), off := 12 } with
      | .ok (toks, _) => .ok (.typed n toks)
      | .err _ => .ok .corrupt
      | .panic w => .panic w

/-- `Message::number` -/
def number (tbl : List MsgRow) : Msg → Option Nat
  | .typed n _ => if (findRow tbl n).isSome then some n else none
  | _ => none

structure Builder where
  data : List Nat      -- 1029 bytes
  hasRun : Bool
  deriving Repr

def freshData : List Nat := 0xd3 :: List.replicate 1028 0

def Builder.new : Builder := { data := freshData, hasRun := false }

/-- `clear_data`: zero `data[1..]` -/
def clearData (d : List Nat) : List Nat := d.take 1 ++ List.replicate (d.length - 1) 0

/-- `build_message`: the builder after the call, and the returned slice or error -/
def Builder.build (cfg : Cfg) (tbl : List MsgRow) (gloTbl : SigTable) (b : Builder) (m : Msg) :
    Builder × Res (List Nat) :=
  let data := if b.hasRun then clearData b.data else b.data
  let window := (data.drop 3).take 1023
  let put (w : List Nat) : List Nat := data.take 3 ++ w ++ data.drop 1026
  match m, number tbl m with
  | .typed n toks, some _ =>
    match Bits.put cfg ⟨.u, 16⟩ window 0 n 12 with
    | .ok (w1, o1) =>
      match findRow tbl n with
      | some row =>
        match Interp.encFrag cfg gloTbl row.frag toks { data := w1, off := o1 } with
        | .ok (c, rest) =>
          if !rest.isEmpty then ({ data := put c.data, hasRun := true }, .panic "tokens: trailing tokens")
          else
            let dataLen := (c.off - 1) / 8 + 1
            let d1 := put c.data
            let d2 := (d1.set 1 ((dataLen >>> 8) % 256)).set 2 (dataLen % 256)
            let crc := crc24q ((d2.take (dataLen + 3)).map UInt8.ofNat)
            let d3 := ((d2.set (dataLen + 3) ((crc >>> 16) % 256)).set (dataLen + 4) ((crc >>> 8) % 256)).set
                        (dataLen + 5) (crc % 256)
            ({ data := d3, hasRun := true }, .ok (d3.take (dataLen + 6)))
        | .err e => ({ data := put w1, hasRun := true }, .err e)   -- partially written body stays (see note)
        | .panic w => ({ data := put w1, hasRun := true }, .panic w)
      | none => ({ data := data, hasRun := true }, .err .encodingNotSupported)
    | .err e => ({ data := data, hasRun := true }, .err e)
    | .panic w => ({ data := data, hasRun := true }, .panic w)
  | _, _ => ({ data := data, hasRun := true }, .err .encodingNotSupported)

/-- run a sequence of builds on one builder; the results in order -/
def buildSeq (cfg : Cfg) (tbl : List MsgRow) (gloTbl : SigTable) : Builder → List Msg → List (Res (List Nat))
  | _, [] => []
  | b, m :: ms =>
    let r := b.build cfg tbl gloTbl m
    r.2 :: buildSeq cfg tbl gloTbl r.1 ms

end Rtcm.Message
