import Rtcm.Model.Text
import Rtcm.Model.Sig
/-!
# L4 MSM: `msm_data_seg_frag!`, `msm_sat_frag!`, `msm_sig_frag!`, `cell_mask_id_vec`, `mask_len_*`
(src/msg/mod.rs, after repair D2)

A satellite row is `(satellite_id, field tokens)`, a signal row `(satellite_id, (band, attr),
field tokens)`; field tokens are one token list per `df` of the fragment. Masks are `Nat`s.
-/
namespace Rtcm.Msm
open Rtcm.Schema Rtcm.Text

structure SatRow where
  id : Nat
  fields : List (List Tok)
  deriving Repr

structure SigRow where
  sat : Nat
  band : Nat
  attr : Nat
  fields : List (List Tok)
  deriving Repr

/-- `mask_len_u32/u64` -/
def popcount (bits : Nat) (m : Nat) : Nat := ((List.range bits).filter fun i => m.testBit i).length

/-- `mask_to_id_vec_*`: identifiers (1-based, MSB first) of the set bits -/
def maskIds (bits : Nat) (m : Nat) : List Nat :=
  ((List.range bits).filter fun i => m.testBit (bits - 1 - i)).map (· + 1)

/-- rank of identifier `id` among the set bits of the mask (`sat_indx[id-1]`) -/
def rankOf (bits : Nat) (m : Nat) (id : Nat) : Nat :=
  ((List.range (id - 1)).filter fun i => m.testBit (bits - 1 - i)).length

def satMaskStep (acc : Res Nat) (s : SatRow) : Res Nat :=
  match acc with
  | .ok mask =>
    if 0 < s.id ∧ s.id ≤ 64 then
      let sat := 2 ^ (64 - s.id)
      if mask &&& sat > 0 then .err .duplicateSatellite else .ok (mask ||| sat)
    else .err .invalidSatelliteId
  | r => r

structure SigAcc where
  sigMask : Nat
  satSigMask : Nat
  cells : List (Nat × Nat)   -- (sat id, sig id), input order

def sigStep (tbl : SigTable) (acc : Res SigAcc) (s : SigRow) : Res SigAcc :=
  match acc with
  | .ok a =>
    if 0 < s.sat ∧ s.sat ≤ 64 then
      match Sig.toId tbl s.band s.attr with
      | some sid =>
        if sid > 32 ∨ sid = 0 then .panic "sig_id outside 1..=32: 32 - sig_id / 1 << 32 overflows"
        else .ok { sigMask := a.sigMask ||| 2 ^ (32 - sid), satSigMask := a.satSigMask ||| 2 ^ (64 - s.sat),
                   cells := a.cells ++ [(s.sat, sid)] }
      | none => .err .invalidSignalId
    else .err .invalidSatelliteId
  | r => r

def cellStep (satMask sigMask sigLen cellLen : Nat) (acc : Res Nat) (c : Nat × Nat) : Res Nat :=
  match acc with
  | .ok mask =>
    let idx := rankOf 64 satMask c.1 * sigLen + rankOf 32 sigMask c.2
    let cell := 2 ^ (cellLen - 1 - idx)
    if mask &&& cell > 0 then .err .duplicateSatelliteSignal else .ok (mask ||| cell)
  | r => r

/-- the three masks, or the error the encoder reports; `none` = the all-empty segment -/
def masks (tbl : SigTable) (sats : List SatRow) (sigs : List SigRow) : Res (Option (Nat × Nat × Nat × Nat)) :=
  if sats.length = 0 ∧ sigs.length = 0 then .ok none
  else
    match sats.foldl satMaskStep (.ok 0) with
    | .ok satMask =>
      match sigs.foldl (sigStep tbl) (.ok { sigMask := 0, satSigMask := 0, cells := [] }) with
      | .ok a =>
        if satMask ≠ a.satSigMask then .err .satelliteMismatch
        else
          let sigLen := popcount 32 a.sigMask
          let cellLen := sigLen * sats.length
          if cellLen > 64 then .err .invalidSatelliteSignalCount
          else
            match a.cells.foldl (cellStep satMask a.sigMask sigLen cellLen) (.ok 0) with
            | .ok cellMask => .ok (some (satMask, a.sigMask, cellMask, cellLen))
            | .err e => .err e
            | .panic p => .panic p
      | .err e => .err e
      | .panic p => .panic p
    | .err e => .err e
    | .panic p => .panic p

/-- encode column `j` of the rows with field spec `s` -/
def encColumn (cfg : Cfg) (s : DfSpec) (j : Nat) : List (List (List Tok)) → Cur → Res Cur
  | [], c => .ok c
  | row :: rows, c =>
    match Df.encode cfg s (row.getD j []) c with
    | .ok (c', _) => encColumn cfg s j rows c'
    | .err e => .err e
    | .panic p => .panic p

def encColumns (cfg : Cfg) (rows : List (List (List Tok))) : Nat → List (String × DfSpec) → Cur → Res Cur
  | _, [], c => .ok c
  | j, (_, s) :: fs, c =>
    match encColumn cfg s j rows c with
    | .ok c' => encColumns cfg rows (j + 1) fs c'
    | .err e => .err e
    | .panic p => .panic p

def sigLe (tbl : SigTable) (a b : SigRow) : Bool :=
  if a.sat < b.sat then true
  else if a.sat > b.sat then false
  else Sig.cmp tbl (a.band, a.attr) (b.band, b.attr) != .gt

/-- `msm_data_seg_frag!::encode` -/
def encode (cfg : Cfg) (tbl : SigTable) (satFields sigFields : List (String × DfSpec))
    (sats : List SatRow) (sigs : List SigRow) (c : Cur) : Res Cur :=
  match masks tbl sats sigs with
  | .ok none =>
    match putU cfg 64 0 64 c with
    | .ok c1 => putU cfg 32 0 32 c1
    | .err e => .err e
    | .panic p => .panic p
  | .ok (some (satMask, sigMask, cellMask, cellLen)) =>
    match putU cfg 64 satMask 64 c with
    | .ok c1 =>
      match putU cfg 32 sigMask 32 c1 with
      | .ok c2 =>
        match putU cfg 64 cellMask cellLen c2 with
        | .ok c3 =>
          let sats' := Sig.sortBy (fun a b : SatRow => a.id ≤ b.id) sats
          match encColumns cfg (sats'.map (·.fields)) 0 satFields c3 with
          | .ok c4 =>
            let sigs' := Sig.sortBy (sigLe tbl) sigs
            encColumns cfg (sigs'.map (·.fields)) 0 sigFields c4
          | .err e => .err e
          | .panic p => .panic p
        | .err e => .err e
        | .panic p => .panic p
      | .err e => .err e
      | .panic p => .panic p
    | .err e => .err e
    | .panic p => .panic p
  | .err e => .err e
  | .panic p => .panic p

/-- decode one column of `n` values -/
def decColumn (cfg : Cfg) (s : DfSpec) : Nat → Cur → Res (List (List Tok) × Cur)
  | 0, c => .ok ([], c)
  | n + 1, c =>
    match Df.decode cfg s c with
    | .ok (t, c') =>
      match decColumn cfg s n c' with
      | .ok (ts, c'') => .ok (t :: ts, c'')
      | .err e => .err e
      | .panic p => .panic p
    | .err e => .err e
    | .panic p => .panic p

/-- all columns; result is column-major -/
def decColumns (cfg : Cfg) (n : Nat) : List (String × DfSpec) → Cur → Res (List (List (List Tok)) × Cur)
  | [], c => .ok ([], c)
  | (_, s) :: fs, c =>
    match decColumn cfg s n c with
    | .ok (col, c') =>
      match decColumns cfg n fs c' with
      | .ok (cols, c'') => .ok (col :: cols, c'')
      | .err e => .err e
      | .panic p => .panic p
    | .err e => .err e
    | .panic p => .panic p

/-- row `i` of a column-major table -/
def rowOf (cols : List (List (List Tok))) (i : Nat) : List (List Tok) := cols.map fun col => col.getD i []

/-- `cell_mask_id_vec` (cells in row-major order, MSB first) -/
def cellIds (satIds sigIds : List Nat) (cellMask : Nat) : List (Nat × Nat) :=
  let n := satIds.length * sigIds.length
  ((List.range n).filter fun i => cellMask.testBit (n - 1 - i)).map fun i =>
    (satIds.getD (i / sigIds.length) 0, sigIds.getD (i % sigIds.length) 0)

def lookupSigs (tbl : SigTable) : List (Nat × Nat) → Res (List (Nat × Nat × Nat))
  | [] => .ok []
  | (sat, sid) :: rest =>
    match Sig.toSig tbl sid with
    | some (b, a) =>
      match lookupSigs tbl rest with
      | .ok r => .ok ((sat, b, a) :: r)
      | .err e => .err e
      | .panic p => .panic p
    | none => .err .invalidSignalId

/-- `msm_data_seg_frag!::decode` -/
def decode (cfg : Cfg) (tbl : SigTable) (satFields sigFields : List (String × DfSpec)) (c : Cur) :
    Res (List SatRow × List SigRow × Cur) :=
  match parseU cfg 64 64 c with
  | .ok (satMask, c1) =>
    match parseU cfg 32 32 c1 with
    | .ok (sigMask, c2) =>
      if satMask = 0 ∧ sigMask = 0 then .ok ([], [], c2)
      else
        let satLen := popcount 64 satMask
        let sigLen := popcount 32 sigMask
        if satLen * sigLen > 64 ∨ satLen * sigLen = 0 then .err .invalidSatelliteSignalCount
        else
          match parseU cfg 64 (satLen * sigLen) c2 with
          | .ok (cellMask, c3) =>
            let satIds := maskIds 64 satMask
            let sigIds := maskIds 32 sigMask
            let cells := cellIds satIds sigIds cellMask
            match decColumns cfg satIds.length satFields c3 with
            | .ok (satCols, c4) =>
              match lookupSigs tbl cells with
              | .ok cellSigs =>
                match decColumns cfg cells.length sigFields c4 with
                | .ok (sigCols, c5) =>
                  let sats := (List.range satIds.length).map fun i =>
                    ({ id := satIds.getD i 0, fields := rowOf satCols i } : SatRow)
                  let sigs := (List.range cellSigs.length).map fun i =>
                    let (sat, b, a) := cellSigs.getD i (0, 0, 0)
                    ({ sat := sat, band := b, attr := a, fields := rowOf sigCols i } : SigRow)
                  .ok (sats, sigs, c5)
                | .err e => .err e
                | .panic p => .panic p
              | .err e => .err e
              | .panic p => .panic p
            | .err e => .err e
            | .panic p => .panic p
          | .err e => .err e
          | .panic p => .panic p
    | .err e => .err e
    | .panic p => .panic p
  | .err e => .err e
  | .panic p => .panic p

end Rtcm.Msm
