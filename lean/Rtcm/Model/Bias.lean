import Rtcm.Model.Msm
/-!
# L4 bias lists: df_msg1059_biases.rs, df_msg1065_biases.rs, df_msg1230_biases.rs (after repair D5)

An entry of 1059/1065 is `(satellite_id, band, attr, bias bits)`; of 1230 `(band, attr, bias bits)`;
`bias bits` is the IEEE binary32 pattern of `bias_m`.
-/
namespace Rtcm.Bias
open Rtcm.Schema Rtcm.Text Rtcm.SoftFloat

structure Entry where
  sat : Nat
  band : Nat
  attr : Nat
  bias : Nat
  deriving Repr, DecidableEq

def f32 := binary32

/-- decimal literal as an `f32` constant -/
def lit (num den : Nat) : F := SoftFloat.round f32 ((num : Rat) / (den : Rat))

/-- `bias /= res; (if bias > 0.0 { bias + 0.5 } else { bias - 0.5 }) as i16`, as a 16-bit pattern -/
def quantBias (res : F) (bits : Nat) : Nat :=
  let b := SoftFloat.div f32 (ofBits f32 bits) res
  let b := if SoftFloat.gt b zero then SoftFloat.add f32 b (.fin false (1/2))
           else SoftFloat.sub f32 b (.fin false (1/2))
  Bits.ofInt 16 (toIntSat b (-32768) 32767)

/-- `(v as f32) * res` -/
def dequantBias (res : F) (sv : Int) : Nat :=
  toBits f32 (SoftFloat.mul f32 (SoftFloat.ofInt f32 sv) res)

def putI16 (cfg : Cfg) (v len : Nat) (c : Cur) : Res Cur :=
  match Bits.put cfg ⟨.i, 16⟩ c.data c.off v len with
  | .ok (d, o) => .ok { data := d, off := o }
  | .err e => .err e
  | .panic p => .panic p

def parseI16 (cfg : Cfg) (len : Nat) (c : Cur) : Res (Int × Cur) :=
  match Bits.parse cfg ⟨.i, 16⟩ c.data c.off len with
  | .ok (v, o) => .ok (Bits.toInt 16 v, { c with off := o })
  | .err e => .err e
  | .panic p => .panic p

/-- parameters distinguishing 1059 (GPS) from 1065 (GLONASS) -/
structure Params where
  maxSat : Nat      -- 63 / 31
  satBits : Nat     -- 6 / 5
  checkSatNum : Bool -- 1059 tests `sat_num > 63`
  cap : Nat
  tbl : SigTable

def res001 : F := lit 1 100
def res002 : F := lit 2 100

def checkSats (p : Params) : List Entry → Bool
  | [] => true
  | e :: es => e.sat ≤ p.maxSat && checkSats p es

/-- distinct satellites present, ascending -/
def satsOf (p : Params) (v : List Entry) : List Nat :=
  (List.range (p.maxSat + 1)).filter fun s => v.any fun e => e.sat == s

def encEntries (cfg : Cfg) (p : Params) : List Entry → Cur → Res Cur
  | [], c => .ok c
  | e :: es, c =>
    match Sig.toId p.tbl e.band e.attr with
    | some sid =>
      match putU cfg 8 sid 5 c with
      | .ok c1 =>
        match putI16 cfg (quantBias res001 e.bias) 14 c1 with
        | .ok c2 => encEntries cfg p es c2
        | .err e => .err e
        | .panic w => .panic w
      | .err e => .err e
      | .panic w => .panic w
    | none => encEntries cfg p es c

def encSats (cfg : Cfg) (p : Params) (v : List Entry) : List Nat → Cur → Res Cur
  | [], c => .ok c
  | s :: ss, c =>
    match putU cfg 8 s p.satBits c with
    | .ok c1 =>
      let mine := v.filter fun e => e.sat == s
      let num := (mine.filter fun e => (Sig.toId p.tbl e.band e.attr).isSome).length
      if num > 31 then .err .outOfRange
      else
        match putU cfg 8 num 5 c1 with
        | .ok c2 =>
          match encEntries cfg p mine c2 with
          | .ok c3 => encSats cfg p v ss c3
          | .err e => .err e
          | .panic w => .panic w
        | .err e => .err e
        | .panic w => .panic w
    | .err e => .err e
    | .panic w => .panic w

/-- 1059 / 1065 `encode` -/
def encode (cfg : Cfg) (p : Params) (v : List Entry) (c : Cur) : Res Cur :=
  if !checkSats p v then .err .outOfRange
  else
    let sats := satsOf p v
    -- `sat_num: u8 += 1` cannot overflow: at most 64 distinct satellites
    if p.checkSatNum && sats.length > 63 then .err .outOfRange
    else
      match putU cfg 8 sats.length 6 c with
      | .ok c1 => encSats cfg p v sats c1
      | .err e => .err e
      | .panic w => .panic w

def decBiases (cfg : Cfg) (p : Params) (sat : Nat) : Nat → List Entry → Cur → Res (List Entry × Cur)
  | 0, acc, c => .ok (acc, c)
  | n + 1, acc, c =>
    match parseU cfg 8 5 c with
    | .ok (sid, c1) =>
      match Sig.toSig p.tbl sid with
      | some (b, a) =>
        match parseI16 cfg 14 c1 with
        | .ok (sv, c2) =>
          if acc.length ≥ p.cap then .err .capacityExceeded
          else decBiases cfg p sat n (acc ++ [{ sat := sat, band := b, attr := a, bias := dequantBias res001 sv }]) c2
        | .err e => .err e
        | .panic w => .panic w
      | none => decBiases cfg p sat n acc c1
    | .err e => .err e
    | .panic w => .panic w

def decSats (cfg : Cfg) (p : Params) : Nat → List Entry → Cur → Res (List Entry × Cur)
  | 0, acc, c => .ok (acc, c)
  | n + 1, acc, c =>
    match parseU cfg 8 p.satBits c with
    | .ok (sat, c1) =>
      match parseU cfg 8 5 c1 with
      | .ok (num, c2) =>
        match decBiases cfg p sat num acc c2 with
        | .ok (acc', c3) => decSats cfg p n acc' c3
        | .err e => .err e
        | .panic w => .panic w
      | .err e => .err e
      | .panic w => .panic w
    | .err e => .err e
    | .panic w => .panic w

/-- 1059 / 1065 `decode` -/
def decode (cfg : Cfg) (p : Params) (c : Cur) : Res (List Entry × Cur) :=
  match parseU cfg 8 6 c with
  | .ok (satNum, c1) => decSats cfg p satNum [] c1
  | .err e => .err e
  | .panic w => .panic w

/-! ### 1230 -/

def gloTable1230 : List ((Nat × Nat) × Nat) := [((1, 67), 8), ((1, 80), 4), ((2, 67), 2), ((2, 80), 1)]

def maskBit1230 (band attr : Nat) : Option Nat :=
  (gloTable1230.find? fun r => r.1 == (band, attr)).map (·.2)

def mask1230 : List Entry → Res Nat
  | [] => .ok 0
  | e :: es =>
    match maskBit1230 e.band e.attr with
    | some b =>
      match mask1230 es with
      | .ok m => .ok (m ||| b)
      | r => r
    | none => .err .invalidSignalId

def enc1230Biases (cfg : Cfg) : List Entry → Cur → Res Cur
  | [], c => .ok c
  | e :: es, c =>
    match putI16 cfg (quantBias res002 e.bias) 16 c with
    | .ok c1 => enc1230Biases cfg es c1
    | .err e => .err e
    | .panic w => .panic w

/-- the first entry (in sorted order) with an unrecognised signal decides the error -/
def firstBad1230 : List Entry → Bool
  | [] => false
  | e :: es => (maskBit1230 e.band e.attr).isNone || firstBad1230 es

/-- 1230 `encode`; `gloTbl` is the GLONASS MSM table that `Ord for GloSigId` consults -/
def encode1230 (cfg : Cfg) (gloTbl : SigTable) (v : List Entry) (c : Cur) : Res Cur :=
  let sorted := Sig.sortBy (fun a b : Entry => Sig.cmp gloTbl (a.band, a.attr) (b.band, b.attr) != .gt) v
  if firstBad1230 sorted then .err .invalidSignalId
  else
    match mask1230 sorted with
    | .ok m =>
      match putU cfg 8 m 4 c with
      | .ok c1 => enc1230Biases cfg sorted c1
      | .err e => .err e
      | .panic w => .panic w
    | .err e => .err e
    | .panic w => .panic w

def dec1230Loop (cfg : Cfg) (mask : Nat) : List ((Nat × Nat) × Nat) → Cur → Res (List Entry × Cur)
  | [], c => .ok ([], c)
  | ((b, a), bit) :: rest, c =>
    if mask &&& bit ≠ 0 then
      match parseI16 cfg 16 c with
      | .ok (sv, c1) =>
        match dec1230Loop cfg mask rest c1 with
        | .ok (es, c2) => .ok ({ sat := 0, band := b, attr := a, bias := dequantBias res002 sv } :: es, c2)
        | .err e => .err e
        | .panic w => .panic w
      | .err e => .err e
      | .panic w => .panic w
    else dec1230Loop cfg mask rest c

def decode1230 (cfg : Cfg) (c : Cur) : Res (List Entry × Cur) :=
  match parseU cfg 8 4 c with
  | .ok (mask, c1) => dec1230Loop cfg mask gloTable1230 c1
  | .err e => .err e
  | .panic w => .panic w

end Rtcm.Bias
