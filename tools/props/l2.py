"""C07: bit-field packing."""
from props import Prop, register
from gencommon import *


@register
class C07(Prop):
    id = "C07"
    profile_sensitive = True

    def rule(self):
        return ("PUT and PARSE ops through the verif_hooks re-exports: kinds {U, I, SM} x carriers {8,16,32,64} x "
                "widths 1..=carrier x every bit offset 0..=23 (every alignment, 1-9 byte spans; both tiers) plus offsets deep inside a body; reads reached by consume_bits skips of 1..17 bits from every alignment; every overhang of 1..8 bits and whole bytes past the end "
                "x values {all for widths <= 12 (quick: <= 6); boundary, one-hot, random above} x backgrounds "
                "{zeros, ones, random}, plus the overflow path. Oracle: every bit of the buffer against the "
                "expected wire bits computed from the signed reading of the value, cursor, read-back. "
                "Non-trivial = distinct ops whose field is unaligned or spans >= 2 bytes.")

    def trusted(self):
        return ["Rust integer semantics (wrapping/arithmetic shifts, `as` casts, overflow-checks panics) as "
                "modelled in Rtcm/Model/Bits.lean"]

    def assumptions(self):
        return ["put/parse are never called with len = 0 (outside the model; proved for the MSM call site in C10)"]

    def values(self, r, kind, w, len_, exhaustive_upto):
        m = 1 << w
        if len_ <= exhaustive_upto:
            base = list(range(1 << len_))
            if kind != "U":
                base += [(m - x) % m for x in range(1, (1 << (len_ - 1)) + 1)]
            vals = set(base)
        else:
            vals = {0, 1, (1 << len_) - 1, (1 << (len_ - 1)), (1 << (len_ - 1)) - 1, m - 1, m >> 1, (m >> 1) - 1,
                    (m - (1 << (len_ - 1))) % m, (m - (1 << (len_ - 1)) + 1) % m, (m - 1 - (1 << (len_ - 1))) % m}
            for k in range(0, w, max(1, w // 8)):
                vals.add(1 << k)
                vals.add((m - (1 << k)) % m)
            for _ in range(6):
                vals.add(r.getrandbits(w))
                vals.add(r.getrandbits(len_))
                vals.add((m - r.getrandbits(len_ - 1) - 1) % m if len_ > 1 else 0)
        return sorted(v % m for v in vals)

    def seqs(self, ctx, r):
        """one Parser / one Assembler used for several fields in turn: narrow field(s), a wide one (every width 33..64),
        then more; and random mixes (state inside a reader or writer -- look-ahead, cached bits -- shows only so)"""
        for off in (0, 1, 3, 7, 8, 13):
            for wide in range(33, 65):
                for pre in ([], [2], [6], [1, 5], [8, 3]):
                    ws = pre + [wide] + [r.choice([1, 8, 13, 32]), r.choice([5, 64])]
                    kinds = [r.choice("uis") for _ in ws]
                    nbytes = (off + sum(ws) + 7) // 8 + r.choice([0, 0, 1])
                    buf = rand_bytes(r, nbytes)
                    yield ("PARSESEQ %d %s %s" % (off, ",".join("%s:%d" % kw for kw in zip(kinds, ws)), hx(buf)), "parse-sequence", True)
                    vals = [r.getrandbits(64) for _ in ws]
                    yield ("PUTSEQ %d %s %s" % (off, hx(rand_bytes(r, nbytes)), ",".join("%s:%d:%d" % t for t in zip(kinds, ws, vals))), "put-sequence", True)
        for _ in range(4000 if ctx.tier == "thorough" else 1500):
            off = r.randrange(0, 24)
            ws = [r.choice([1, 2, 3, 7, 8, 9, 16, 31, 32, 33, 56, 57, 58, 63, 64, r.randrange(1, 65)]) for _ in range(r.randrange(2, 9))]
            kinds = [r.choice("uis") for _ in ws]
            nbytes = max(0, (off + sum(ws) + 7) // 8 - r.choice([0, 0, 0, 1, 3]))
            yield ("PARSESEQ %d %s %s" % (off, ",".join("%s:%d" % kw for kw in zip(kinds, ws)), hx(rand_bytes(r, nbytes))), "parse-sequence-random", True)
            yield ("PUTSEQ %d %s %s" % (off, hx(rand_bytes(r, nbytes)), ",".join("%s:%d:%d" % (k, w, r.getrandbits(64)) for k, w in zip(kinds, ws))), "put-sequence-random", True)

    def gen(self, ctx):
        r = ctx.rng("gen")
        thorough = ctx.tier == "thorough"
        ex = 12 if thorough else 6
        yield from self.seqs(ctx, ctx.rng("seq"))
        for kind in ("U", "I", "SM"):
            for w in (8, 16, 32, 64):
                for len_ in range(1, w + 1):
                    # every alignment and every span for every width (0..23), a few offsets deep inside a body,
                    # the full value set at a seeded subset of offsets and the boundary values everywhere
                    full = set(range(24)) if len_ <= 16 else set([0, 7] + [r.randrange(24) for _ in range(8)])
                    offs = list(range(24)) + [8 * r.randrange(3, 1000) + k for k in r.sample(range(8), 3)]
                    vals_all = self.values(r, kind, w, len_, ex)
                    m_ = 1 << len_
                    edge = sorted({0, 1 % m_, m_ - 1, m_ >> 1, (m_ >> 1) - 1 if m_ > 1 else 0, (m_ >> 1) + 1 if m_ > 2 else 0,
                                   r.getrandbits(len_), r.getrandbits(len_)})
                    for off in offs:
                        vals = vals_all if off in full else edge
                        nbytes = (off + len_ + 7) // 8 + r.choice([0, 1])
                        nontrivial = (off % 8 != 0) or ((off + len_ - 1) // 8 > off // 8)
                        bgs = [bytes(nbytes), bytes([255] * nbytes), rand_bytes(r, nbytes)]
                        vs = vals if len(vals) <= 40 or thorough else r.sample(vals, 40)
                        for v in vs:
                            bg = r.choice(bgs)
                            yield (f"PUT {kind} {w} {off} {len_} {v} {hx(bg)}", f"put-{kind}{w}", nontrivial)
                        for _ in range(2):
                            bg = rand_bytes(r, nbytes)
                            yield (f"PARSE {kind} {w} {off} {len_} {hx(bg)}", f"parse-{kind}{w}", nontrivial)
                        if len_ <= (8 if thorough else 4):
                            # all bit patterns of the field
                            for x in range(1 << len_):
                                bg = bytearray(rand_bytes(r, nbytes))
                                for j in range(len_):
                                    g = off + j
                                    bit = (x >> (len_ - 1 - j)) & 1
                                    bg[g // 8] = (bg[g // 8] & ~(0x80 >> (g % 8))) | ((0x80 >> (g % 8)) if bit else 0)
                                yield (f"PARSE {kind} {w} {off} {len_} {hx(bg)}", f"parse-all-{kind}{w}", nontrivial)
                    # the cursor reached by skipping bits (Parser::consume_bits) instead of directly: every skip
                    # 1..17 from every alignment, then a read
                    if len_ in (1, 3, 8, w) or len_ == w // 2:
                        for off0 in range(8):
                            for skip in list(range(1, 18)) + [r.randrange(18, 200)]:
                                nbytes = (off0 + skip + len_ + 7) // 8 + r.choice([0, 1])
                                yield (f"SKIPPARSE {kind} {w} {off0} {skip} {len_} {hx(rand_bytes(r, nbytes))}", "parse-after-skip", True)
                    # cursor already beyond the end of the buffer
                    if len_ in (1, 8, w):
                        for nb in (0, 1, 3):
                            for beyond in (1, 7, 8, 9, 40):
                                bg = rand_bytes(r, nb)
                                yield (f"PARSE {kind} {w} {nb * 8 + beyond} {len_} {hx(bg)}", "cursor-beyond-end", True)
                                yield (f"PUT {kind} {w} {nb * 8 + beyond} {len_} {r.getrandbits(w)} {hx(bg)}", "cursor-beyond-end", True)
                    # overflow path: the field overhangs the buffer by 1..8 bits (every alignment), and by whole bytes
                    for off in list(range(16)) + [r.randrange(16, 4000)]:
                        for short in (0, 1, r.choice([2, 3])):
                            nbytes = max(0, (off + len_ - 1) // 8 - short)
                            bg = rand_bytes(r, nbytes)
                            yield (f"PUT {kind} {w} {off} {len_} {r.getrandbits(w)} {hx(bg)}", "overflow", True)
                            yield (f"PARSE {kind} {w} {off} {len_} {hx(bg)}", "overflow", True)
