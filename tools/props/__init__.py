"""Per-property generators, oracles and evidence rules."""
import hashlib, importlib, json, os, random


class Ctx:
    def __init__(self, **kw):
        self.__dict__.update(kw)
        self.cov = {"evaluations": 0, "distinct_nontrivial": 0, "model_disagreements": 0,
                    "oracle_failures": 0, "classes": {}, "samples": []}
        self.violations = []
        self.disagreements = []

    def rng(self, salt=""):
        return random.Random(f"{self.seed}-{self.prop}-{salt}")


class Prop:
    """Default machinery: a stream of op lines is answered by the Lean driver and by the real code
    (two build profiles); the oracle mode of the harness evaluates the property on the real code."""
    id = "C00"
    use_oracle = True
    profile_sensitive = False   # True: the model is also run under Cfg.checked for the relchk build
    per_op_timeout = 10.0

    def rule(self):
        return ""

    def trusted(self):
        return []

    def assumptions(self):
        return []

    def extra_obligations(self):
        return 0

    def gen(self, ctx):
        """yield (op_line, class_name, nontrivial)"""
        return []

    def corpus(self, ctx):
        p = os.path.join(ctx.root, "corpus", self.id + ".txt")
        out = []
        if os.path.exists(p):
            for line in open(p):
                line = line.strip()
                if line and not line.startswith("#"):
                    out.append((line, "corpus", True))
        return out

    def run(self, ctx):
        if ctx.replay:
            rp = json.load(open(ctx.replay))
            items = [(f["op"], "replay", True) for f in rp.get("failures", []) if "op" in f]
        else:
            items = self.corpus(ctx) + list(self.gen(ctx))
        ops = [i[0] for i in items]
        if not ops:
            return {}
        with open(os.path.join(ctx.wdir, "ops.txt"), "w") as f:
            f.write("\n".join(ops) + "\n")
        from concurrent.futures import ThreadPoolExecutor
        jobs = {}
        with ThreadPoolExecutor(max_workers=6) as ex:
            for prof, exe in (("release", ctx.exe_release), ("relchk", ctx.exe_relchk)):
                jobs[("impl", prof)] = ex.submit(ctx.run_all, [exe], ops, self.per_op_timeout)
                if self.use_oracle:
                    jobs[("oracle", prof)] = ex.submit(ctx.run_all, [exe, "--oracle"], ops, self.per_op_timeout)
            if ctx.driver:
                jobs[("model", "release")] = ex.submit(ctx.run_all, [ctx.driver], ops, self.per_op_timeout)
                if self.profile_sensitive:
                    jobs[("model", "relchk")] = ex.submit(ctx.run_all, [ctx.driver, "--checked"], ops, self.per_op_timeout)
        impl = {prof: jobs[("impl", prof)].result() for prof in ("release", "relchk")}
        # third build: the crate without its `std` feature must answer exactly like the standard build
        nostd = None
        if getattr(ctx, "exe_nostd", None) and os.path.exists(ctx.exe_nostd):
            nostd = ctx.run_all([ctx.exe_nostd], ops, self.per_op_timeout)
            nostd_or = ctx.run_all([ctx.exe_nostd, "--oracle"], ops, self.per_op_timeout) if self.use_oracle else None
        model = None
        if ctx.driver:
            model = {"release": jobs[("model", "release")].result()}
            model["relchk"] = jobs[("model", "relchk")].result() if self.profile_sensitive else model["release"]
        oracle = {}
        if self.use_oracle:
            oracle = {prof: jobs[("oracle", prof)].result() for prof in ("release", "relchk")}
        # an answer HANG / CRASH of the *model driver* is our own infrastructure (a time limit hit on a loaded machine,
        # everything after it in the chunk shifted): such ops are asked again, one at a time, without haste
        if model is not None:
            for prof in ("release", "relchk"):
                lst = model[prof]
                bad = [k for k, a in enumerate(lst) if a in ("HANG", "CRASH")]
                for k in bad[:50]:
                    cmd = [ctx.driver] + (["--checked"] if (prof == "relchk" and self.profile_sensitive) else [])
                    again = ctx.run_all(cmd, [ops[k]], 600.0)
                    if again and again[0] not in ("HANG", "CRASH"):
                        lst[k] = again[0]
        classes = {}
        nontrivial = set()
        dis = 0
        ofail = 0
        seen_ops = set()
        for k, (op, cls, nt) in enumerate(items):
            classes[cls] = classes.get(cls, 0) + 1
            h = hashlib.sha1(op.encode()).digest()[:10]
            if nt and h not in seen_ops:
                nontrivial.add(h)
            seen_ops.add(h)
            a_rel, a_chk = impl["release"][k], impl["relchk"][k]
            if model is not None and (model["release"][k] != a_rel or model["relchk"][k] != a_chk):
                dis += 1
                if len(ctx.disagreements) < 20:
                    ctx.disagreements.append({"stream": f"{self.id}:{cls}", "op": op[:2000], "model": model["release"][k][:600],
                                              "model_checked": model["relchk"][k][:600],
                                              "release": a_rel[:600], "relchk": a_chk[:600]})
            elif model is None and a_rel != a_chk:
                dis += 1
                if len(ctx.disagreements) < 20:
                    ctx.disagreements.append({"stream": f"{self.id}:{cls}:profiles", "op": op[:2000],
                                              "release": a_rel[:600], "relchk": a_chk[:600]})
            if nostd is not None and (nostd[k] != a_rel or (nostd_or is not None and (nostd_or[k].startswith("FAIL") or nostd_or[k] in ("CRASH", "HANG", "PANIC")))):
                ofail += 1
                if len(ctx.violations) < 200:
                    ctx.violations.append({"op": op[:4000], "class": cls, "profile": "nostd", "oracle": "FAIL C19/C20 the build without the crate's std feature answers differently: " + nostd[k][:300] + " | oracle: " + (nostd_or[k][:200] if nostd_or else ""),
                                           "implementation": a_rel[:800], "model": None})
            for prof in oracle:
                ans = oracle[prof][k]
                if ans.startswith("FAIL") or ans in ("CRASH", "HANG", "PANIC"):
                    ofail += 1
                    if len(ctx.violations) < 200:
                        ctx.violations.append({"op": op[:4000], "class": cls, "profile": prof, "oracle": ans[:800],
                                               "implementation": impl[prof][k][:800],
                                               "model": model[prof][k][:800] if model else None})
                    break
        ctx.cov["evaluations"] = len(ops)
        ctx.cov["distinct_nontrivial"] = len(nontrivial)
        ctx.cov["model_disagreements"] = dis
        ctx.cov["oracle_failures"] = ofail
        ctx.cov["classes"] = classes
        first = {}
        for k, (op, cls, nt) in enumerate(items):
            if cls not in first and nt:
                first[cls] = {"class": cls, "op": op[:300], "implementation": impl["release"][k][:200],
                              "model": (model["release"][k][:200] if model else None),
                              "oracle": (oracle["release"][k][:80] if oracle else None)}
        ctx.cov["samples"] = list(first.values())
        ctx.cov["model_driver_used"] = model is not None
        return {}


_REG = {}


def register(cls):
    _REG[cls.id] = cls
    return cls


def get(pid):
    for m in ("l1",):
        importlib.import_module("props." + m)
    for m in ("l2", "l3", "l4", "l5", "l6"):
        try:
            importlib.import_module("props." + m)
        except ModuleNotFoundError as e:
            if e.name != "props." + m:
                raise
    c = _REG.get(pid)
    return c() if c else None
