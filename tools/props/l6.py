"""C10 (MSM masks), C18 (signal tables), C19 (feature selection), C20 (serde)."""
import json, os, subprocess, shutil, time
from props import Prop, register
from props.l5 import MsgProp, gen_for, read_bits, MSM_NUMBERS
from gencommon import *


@register
class C10(MsgProp):
    id = "C10"

    def rule(self):
        return ("ENC ops on all MSM message types: admissible (S, G, C) — exhaustive over small scopes (|S|,|G| <= 2 "
                "for a seeded subset of types; thorough: <= 3 for all 49) and random up to 64 cells — with randomly "
                "permuted satellite and cell lists, plus one input per invalid class (satellite 0 / >64, unrecognised "
                "signal, duplicate satellite, duplicate cell, satellite rows disagreeing with cell rows, > 64 mask "
                "cells). Oracle (Python, on frames and errors returned by the real code): satellite mask bits 73..136 "
                "= S (MSB = satellite 1), signal mask bits 137..168 = identifiers of G, cell mask from bit 169 = "
                "row-major S x G incidence of C; DEC of the frame returns S ascending and C ascending by (satellite, "
                "identifier); two permutations of one input give the same frame; each invalid class is rejected "
                "with its error. Non-trivial = distinct inputs with >= 2 satellites and >= 2 signals, or invalid.")

    def gen(self, ctx):
        g = gen_for(ctx)
        r = ctx.rng("gen")
        self.g = g
        self.plan = []
        thorough = ctx.tier == "thorough"
        nums = [n for n in g.numbers if n in MSM_NUMBERS]
        for n in nums:
            mf = g.frags[g.mod_of[n]]
            dseg = [x for _, x in mf["fields"] if x in g.frags and g.frags[x]["macro"] == "msm_data_seg_frag"][0]
            f = g.frags[dseg]
            pool = g.sig_pool(f["gnss"])
            ids = {(b, a): i for i, b, a in g.s["sig_tables"][f["gnss"]]}
            cases = []
            # small scopes, exhaustive
            if thorough or r.random() < 0.25:
                for S in ([5], [64, 1], [2, 33, 17] if thorough else [9, 3]):
                    for G in (pool[:1], pool[-2:], [pool[0], pool[len(pool) // 2], pool[-1]] if thorough else pool[:2]):
                        G = list(dict.fromkeys(G))      # small tables: the three picks may coincide
                        full = [(s, x) for s in S for x in G]
                        for mask in range(1, 1 << len(full)):
                            C = [c for i, c in enumerate(full) if mask >> i & 1]
                            if {c[0] for c in C} == set(S) and {c[1] for c in C} == set(G):
                                cases.append((list(S), list(G), C, None))
            for _ in range(6 if not thorough else 40):
                S, G, C = g.msm_sets(r, f["gnss"])
                cases.append((S, G, C, None))
            # every signal of the table at once (and 16 / 17 of them), with as many satellites as 64 cells allow
            for ng in sorted({len(pool), min(len(pool), 17), min(len(pool), 16), min(len(pool), 9)}):
                G = r.sample(pool, ng)
                ns = max(1, 64 // ng)
                S = r.sample(range(1, 65), r.choice([1, ns]))
                C = [(s_, x) for s_ in S for x in G if r.random() < 0.8]
                for s_ in S:
                    if not any(c[0] == s_ for c in C):
                        C.append((s_, G[0]))
                for x in G:
                    if not any(c[1] == x for c in C):
                        C.append((S[0], x))
                cases.append((list(S), list(G), C, None))
            # adversarial listings: nearly sorted inputs (one signal of one satellite moved to the front of its
            # group, adjacent swaps, reversal), with odd/even and extreme satellite numbers and the table's
            # first and last identifiers
            byid = sorted(pool, key=lambda x: ids[x])
            Gn = list(dict.fromkeys([byid[0], byid[len(byid) // 2], byid[-1]]))
            for Sn in ([3, 4], [63, 64], [1, 33]):
                full = [(s_, x) for s_ in Sn for x in Gn]
                for order in ("last-first", "swap", "reverse"):
                    if order == "last-first":
                        Cn = []
                        for s_ in Sn:
                            grp = [c for c in full if c[0] == s_]
                            Cn += [grp[-1]] + grp[:-1]
                    elif order == "swap":
                        Cn = list(full)
                        for i in range(0, len(Cn) - 1, 2):
                            Cn[i], Cn[i + 1] = Cn[i + 1], Cn[i]
                    else:
                        Cn = list(reversed(full))
                    cases.append((list(Sn), list(Gn), Cn, "order:" + order))
            for inv in ("sat0", "sat65", "cellsat0", "cellsat0", "badsig", "badsig", "badsig", "badsig", "dupsat", "dupcell", "dupcell64", "dupcell64", "dupcell65", "gridx4", "mismatch-extra-sat", "mismatch-extra-cell", "mismatch-swap", "mismatch-swap", "cells65",
                        "only-sats", "only-cells"):
                cases.append((None, None, None, inv))
            for S, G, C, inv in cases:
                head = []
                for _, x in mf["fields"]:
                    if x == dseg:
                        break
                    head += g.frag(r, x, "valid")
                if inv is None or inv.startswith("order:"):
                    vals = {}
                    perm_ops = []
                    for p in range(2):
                        S2, C2 = list(S), list(C)
                        if inv is None:
                            r.shuffle(S2); r.shuffle(C2)
                        elif p == 0:
                            S2, C2 = sorted(S2), sorted(C2, key=lambda c: (c[0], ids[c[1]]))   # standard order first
                        # field values keyed by satellite / cell so that permutations carry the same data
                        rows = g.msm_rows(r, f, S2, C2, "valid")
                        rows = self.fix_values(g, f, rows, vals)
                        perm_ops.append("ENC %d %s" % (n, " ".join(head + rows)))
                    for op in perm_ops:
                        self.plan.append((n, op, S, G, C, ids, None, perm_ops[0]))
                        yield (op, "admissible", len(S) >= 2 and len(G) >= 2)
                    if len(S) <= 4 or r.random() < 0.2:
                        # the same input in containers with a history (stale rows behind the active part)
                        opd = "ENCD" + perm_ops[-1][3:]
                        self.plan.append((n, opd, S, G, C, ids, None, perm_ops[0]))
                        yield (opd, "admissible-containers-with-history", True)
                else:
                    rows = g.msm(r, f, "valid", invalid=inv)
                    op = "ENC %d %s" % (n, " ".join(head + rows))
                    self.plan.append((n, op, None, None, None, ids, inv, op))
                    yield (op, "invalid-" + inv, True)

    def fix_values(self, g, f, rows, vals):
        """replace field values by values remembered per (satellite) / (satellite, signal) key"""
        sat_f = g.frags[f["sat_id"]]["fields"]
        sig_f = g.frags[f["sig_id"]]["fields"]
        out = []
        i = 0
        ns = int(rows[i][1:]); out.append(rows[i]); i += 1

        def take_fields(fields, key):
            nonlocal i
            toks = []
            for _, x in fields:
                d = g.dfs[x]
                if d["inv"] is not None and rows[i] == "N":
                    toks.append(rows[i]); i += 1
                elif d["inv"] is not None:
                    toks += rows[i:i + 2]; i += 2
                else:
                    toks.append(rows[i]); i += 1
            if key in vals:
                return vals[key]
            vals[key] = toks
            return toks

        for _ in range(ns):
            sid = rows[i]; i += 1
            out.append(sid)
            out += take_fields(sat_f, ("sat", sid))
        nc = int(rows[i][1:]); out.append(rows[i]); i += 1
        for _ in range(nc):
            sid, sg = rows[i], rows[i + 1]; i += 2
            out += [sid, sg]
            out += take_fields(sig_f, ("cell", sid, sg))
        return out

    EXPECTED = {"sat0": "InvalidSatelliteId", "sat65": "InvalidSatelliteId", "cellsat0": "InvalidSatelliteId", "badsig": "InvalidSignalId",
                "dupsat": "DuplicateSatellite", "dupcell": "DuplicateSatelliteSignal", "dupcell64": "DuplicateSatelliteSignal",
                "dupcell65": None, "gridx4": "DuplicateSatelliteSignal",
                "mismatch-extra-sat": "SatelliteMismatch", "mismatch-extra-cell": "SatelliteMismatch", "mismatch-swap": "SatelliteMismatch",
                "cells65": "InvalidSatelliteSignalCount", "only-sats": "SatelliteMismatch", "only-cells": "SatelliteMismatch"}

    def run(self, ctx):
        extra = super().run(ctx)
        if ctx.replay:
            return extra
        fails = 0
        ops = [p[1] for p in self.plan]
        for prof, exe in (("release", ctx.exe_release), ("relchk", ctx.exe_relchk)):
            ans = ctx.run_all([exe], ops, 20.0)
            first = {}
            decs, meta = [], []
            for (n, op, S, G, C, ids, inv, group), a in zip(self.plan, ans):
                if inv is not None:
                    if self.EXPECTED[inv] is None:
                        # more than 64 rows: no MSM value holds them (the harness cannot build it) or any error
                        if not (a.startswith("ERR") or a == "BAD-OP"):
                            fails += 1; self.fail(ctx, op, prof, f"invalid input ({inv}) answered {a[:60]}")
                    elif a != "ERR " + self.EXPECTED[inv]:
                        fails += 1; self.fail(ctx, op, prof, f"invalid input ({inv}) answered {a[:60]}, expected ERR {self.EXPECTED[inv]}")
                    continue
                if a.startswith("ERR") or a in ("PANIC", "BAD-OP", "CRASH", "HANG"):
                    # a legitimate refusal: body too large for the payload (64 cells of MSM7) or a value out of range
                    if a not in ("ERR BufferOverflow", "ERR OutOfRange"):
                        fails += 1; self.fail(ctx, op, prof, f"admissible input refused: {a}")
                    continue
                fr = bytes.fromhex(a)
                p = fr[3:-3]
                satmask = read_bits(p, 73, 64)
                sigmask = read_bits(p, 137, 32)
                exp_sat = sum(1 << (64 - s) for s in S)
                exp_sig = sum(1 << (32 - ids[x]) for x in G)
                Ss = sorted(S)
                Gs = sorted(G, key=lambda x: ids[x])
                ncell = len(Ss) * len(Gs)
                cellmask = read_bits(p, 169, ncell)
                exp_cell = 0
                for i, s in enumerate(Ss):
                    for j, x in enumerate(Gs):
                        if (s, x) in C:
                            exp_cell |= 1 << (ncell - 1 - (i * len(Gs) + j))
                if satmask != exp_sat:
                    fails += 1; self.fail(ctx, op, prof, f"satellite mask {satmask:016x} expected {exp_sat:016x}")
                if sigmask != exp_sig:
                    fails += 1; self.fail(ctx, op, prof, f"signal mask {sigmask:08x} expected {exp_sig:08x}")
                if cellmask != exp_cell:
                    fails += 1; self.fail(ctx, op, prof, f"cell mask {cellmask:x} expected {exp_cell:x}")
                if group in first and first[group] != a:
                    fails += 1; self.fail(ctx, op, prof, "a permutation of the same satellites and cells gives a different frame")
                first.setdefault(group, a)
                decs.append("DEC " + a); meta.append((n, op, Ss, [(s, x) for s in Ss for x in Gs if (s, x) in C]))
            dans = ctx.run_all([exe], decs, 20.0)
            for (n, op, Ss, Cs), a in zip(meta, dans):
                t = a.split()
                if not a.startswith(f"MSG {n} "):
                    fails += 1; self.fail(ctx, op, prof, "own frame decodes to " + a[:50]); continue
                sats, cells = self.rows_of(n, t[2:])
                if sats != Ss:
                    fails += 1; self.fail(ctx, op, prof, f"decoded satellites {sats} expected {Ss}")
                if cells != [(s, "g%d:%d" % x) for s, x in Cs]:
                    fails += 1; self.fail(ctx, op, prof, "decoded cells not in ascending (satellite, identifier) order or not the same set")
        ctx.cov["oracle_failures"] += fails
        return extra

    def rows_of(self, n, toks):
        g = self.g
        mf = g.frags[g.mod_of[n]]
        dseg = [x for _, x in mf["fields"] if x in g.frags and g.frags[x]["macro"] == "msm_data_seg_frag"][0]
        f = g.frags[dseg]
        i = 0
        for _, x in mf["fields"]:
            if x == dseg:
                break
            d = g.dfs[x]
            i += 1 if (d["inv"] is None or toks[i] == "N") else 2

        def skip(fields):
            nonlocal i
            for _, x in fields:
                d = g.dfs[x]
                i += 1 if (d["inv"] is None or toks[i] == "N") else 2

        ns = int(toks[i][1:]); i += 1
        sats = []
        for _ in range(ns):
            sats.append(int(toks[i][1:])); i += 1
            skip(g.frags[f["sat_id"]]["fields"])
        nc = int(toks[i][1:]); i += 1
        cells = []
        for _ in range(nc):
            cells.append((int(toks[i][1:]), toks[i + 1])); i += 2
            skip(g.frags[f["sig_id"]]["fields"])
        return sats, cells

    def fail(self, ctx, op, prof, why):
        if len(ctx.violations) < 60:
            ctx.violations.append({"op": op[:3000], "profile": prof, "oracle": "FAIL C10 " + why})


# standard positions (RTCM 10403.3 MSM signal tables + Amendment 1 for BeiDou; RINEX 3 codes), written out
# here independently of the source, as in lean/Rtcm/Props/C18.lean
def _ref(rows):
    return {(b, ord(a)): i for i, b, a in rows}


REF_SIG = {
    "gps": _ref([(2, 1, "C"), (3, 1, "P"), (4, 1, "W"), (8, 2, "C"), (9, 2, "P"), (10, 2, "W"), (15, 2, "S"), (16, 2, "L"),
                 (17, 2, "X"), (22, 5, "I"), (23, 5, "Q"), (24, 5, "X"), (30, 1, "S"), (31, 1, "L"), (32, 1, "X")]),
    "glo": _ref([(2, 1, "C"), (3, 1, "P"), (8, 2, "C"), (9, 2, "P")]),
    "gal": _ref([(2, 1, "C"), (3, 1, "A"), (4, 1, "B"), (5, 1, "X"), (6, 1, "Z"), (8, 6, "C"), (9, 6, "A"), (10, 6, "B"),
                 (11, 6, "X"), (12, 6, "Z"), (14, 7, "I"), (15, 7, "Q"), (16, 7, "X"), (18, 8, "I"), (19, 8, "Q"),
                 (20, 8, "X"), (22, 5, "I"), (23, 5, "Q"), (24, 5, "X")]),
    "sbas": _ref([(2, 1, "C"), (22, 5, "I"), (23, 5, "Q"), (24, 5, "X")]),
    "qzss": _ref([(2, 1, "C"), (9, 6, "S"), (10, 6, "L"), (11, 6, "X"), (15, 2, "S"), (16, 2, "L"), (17, 2, "X"),
                  (22, 5, "I"), (23, 5, "Q"), (24, 5, "X"), (30, 1, "S"), (31, 1, "L"), (32, 1, "X")]),
    "bds": _ref([(2, 2, "I"), (3, 2, "Q"), (4, 2, "X"), (8, 6, "I"), (9, 6, "Q"), (10, 6, "X"), (14, 7, "I"), (15, 7, "Q"),
                 (16, 7, "X"), (22, 5, "D"), (23, 5, "P"), (24, 5, "X"), (25, 7, "D"), (30, 1, "D"), (31, 1, "P"), (32, 1, "X")]),
    "navic": _ref([(22, 5, "A")]),
}


@register
class C18(Prop):
    id = "C18"

    def rule(self):
        return ("SIG ops (validity) for 7 constellations x bands {0..=9, 255, seeded others} x every attribute code "
                "point up to U+00FF plus sampled others; SIGCMP ops for all ordered pairs of recognised descriptors "
                "and seeded pairs/triples overall (oracle: reflexive, swap-consistent, Equal only for identical "
                "descriptors); per recognised descriptor a one-cell MSM message is encoded by the real code and the "
                "signal-mask bit position read from the frame is compared with the regenerated table (to_id), and "
                "decoded back (to_sig). Non-trivial = distinct ops involving at least one recognised descriptor.")

    def trusted(self):
        return ["the reference table of standard positions is written out in Props/C18.lean from RTCM 10403.3 "
                "(+ Amendment 1 for BeiDou B1C/B2a/B2b) and RINEX 3 observation codes"]

    def gen(self, ctx):
        sch = json.load(open(os.path.join(ctx.root, "work", "schema.json")))
        r = ctx.rng("gen")
        self.sch = sch
        for gnss, rows in sch["sig_tables"].items():
            rec = {(b, a) for _, b, a in rows}
            bands = sorted(set(list(range(10)) + [255] + [r.randrange(256) for _ in range(3)]))
            for b in bands:
                attrs = list(range(256)) if (ctx.tier == "thorough" or b in {x[0] for x in rec}) else [r.randrange(256) for _ in range(20)]
                for a in attrs + [0x100, 0x20AC, 0x1F600]:
                    yield (f"SIG {gnss} {b} {a}", "validity", (b, a) in rec)
            recl = sorted(rec)
            # unrecognised descriptors that a lossy comparison would take for a recognised one (attribute equal
            # after truncation to 8 or 16 bits, a 7-bit mask or a case fold)
            for x in recl:
                for a in alias_chars(x[1]):
                    for b in sorted({x[0] ^ 1, max(0, x[0] - 1), x[0] + 1, x[0] | 0x80, x[0] + 16}):
                        if (b, a) not in rec and b < 256:
                            yield (f"SIG {gnss} {b} {a}", "validity-alias-band", True)
                            yield (f"SIGCMP {gnss} {x[0]} {x[1]} {b} {a}", "cmp-alias-band", True)
                    if (x[0], a) not in rec:
                        yield (f"SIG {gnss} {x[0]} {a}", "validity-alias", True)
                        yield (f"SIGCMP {gnss} {x[0]} {x[1]} {x[0]} {a}", "cmp-alias", True)
                        yield (f"SIGCMP {gnss} {x[0]} {a} {x[0]} {x[1]}", "cmp-alias", True)
            for x in recl:
                for y in recl:
                    yield (f"SIGCMP {gnss} {x[0]} {x[1]} {y[0]} {y[1]}", "cmp-recognised", True)
            # unrecognised neighbours of every recognised descriptor, both argument orders
            for x in recl:
                attrs = list(range(0x41, 0x5B)) + [0, 0x20, 0x61, 0xFF, 0x100]
                for b in sorted({0, max(0, x[0] - 1), x[0], x[0] + 1, 255}):
                    for a in (attrs if (ctx.tier == "thorough" or b <= x[0]) else attrs[::5]):
                        if (b, a) not in rec:
                            yield (f"SIGCMP {gnss} {x[0]} {x[1]} {b} {a}", "cmp-neighbour", True)
                            yield (f"SIGCMP {gnss} {b} {a} {x[0]} {x[1]}", "cmp-neighbour", True)
            # unrecognised against unrecognised: neighbouring bands x attributes at the ends of every plane (a packed sort
            # key overflows from the attribute into the band)
            ubands = [b for b in (0, 1, 6, 7, 40, 41, 254, 255)]
            uattrs = [0x41, 0x7F, 0x80, 0xFF, 0x100, 0xFFFF, 0x10000, 0xFFFFF, 0x100000, 0x100041, 0x10FFFD, 0x10FFFF]
            pool_u = [(b, a) for b in ubands for a in uattrs if (b, a) not in rec]
            for x in pool_u:
                for y in pool_u:
                    if x[0] in (y[0], y[0] + 1, y[0] - 1) and x != y:
                        yield (f"SIGCMP {gnss} {x[0]} {x[1]} {y[0]} {y[1]}", "cmp-unrecognised-planes", True)
            for _ in range(300 if ctx.tier == "quick" else 5000):
                x = r.choice(recl) if r.random() < 0.5 else (r.randrange(256), r.randrange(0x250))
                y = r.choice(recl) if r.random() < 0.5 else (r.randrange(256), r.randrange(0x250))
                yield (f"SIGCMP {gnss} {x[0]} {x[1]} {y[0]} {y[1]}", "cmp-mixed", x in rec or y in rec)

    def run(self, ctx):
        extra = super().run(ctx)
        if ctx.replay:
            return extra
        # to_id / to_sig through a one-cell MSM4-type message of each constellation
        from msggen import Gen
        g = Gen(ctx.root, ctx.repo)
        r = ctx.rng("onecell")
        fails = 0
        ops, meta = [], []
        for n in g.numbers:
            if not (1071 <= n <= 1137) or n % 10 != 4:
                continue
            mf = g.frags[g.mod_of[n]]
            dseg = [x for _, x in mf["fields"] if x in g.frags and g.frags[x]["macro"] == "msm_data_seg_frag"][0]
            f = g.frags[dseg]
            rows = {(b, a): i for i, b, a in g.s["sig_tables"][f["gnss"]]}
            for (b, a), i in REF_SIG[f["gnss"]].items():
                rows[(b, a)] = i            # the standard's position wins: a moved row is a failing input
            for (b, a), i in sorted(rows.items()):
                head = []
                for _, x in mf["fields"]:
                    if x == dseg:
                        break
                    head += g.frag(r, x, "valid")
                rows = g.msm_rows(r, f, [7], [(7, (b, a))], "valid")
                ops.append("ENC %d %s" % (n, " ".join(head + rows)))
                meta.append((n, f["gnss"], i, b, a))
        ans = ctx.run_all([ctx.exe_release], ops, 20.0)
        decs = []
        for (n, gnss, i, b, a), fr in zip(meta, ans):
            if fr.startswith("ERR") or fr in ("PANIC", "BAD-OP"):
                fails += 1; self.fail(ctx, f"one-cell {gnss} {b}|{chr(a)}", "encode answered " + fr); decs.append("DEC -"); continue
            p = bytes.fromhex(fr)[3:-3]
            m = read_bits(p, 137, 32)
            if m != 1 << (32 - i):
                fails += 1
                self.fail(ctx, f"ENC one-cell {gnss} {b}|{chr(a)}", f"signal mask {m:08x}: descriptor is not at position {i}")
            decs.append("DEC " + fr)
        dans = ctx.run_all([ctx.exe_release], decs, 20.0)
        for (n, gnss, i, b, a), d in zip(meta, dans):
            if f"g{b}:{a}" not in d.split():
                fails += 1; self.fail(ctx, f"DEC one-cell {gnss} id {i}", f"decoded signal is not {b}|{chr(a)}")
        ctx.cov["oracle_failures"] += fails
        ctx.cov["one_cell_messages"] = len(ops)
        return extra

    def fail(self, ctx, op, why):
        if len(ctx.violations) < 60:
            ctx.violations.append({"op": op, "profile": "release", "oracle": "FAIL C18 " + why})


@register
class C20(MsgProp):
    id = "C20"
    profile_sensitive = False

    def rule(self):
        return ("SERDESTR ops (both string types through serde_json string and Value round trips) on strings with "
                "high Latin-1 at capacity, NUL, multi-byte characters at the byte capacity; SERDEMSG ops: generated "
                "messages of all supported types (non-NaN floats, lists at capacity, absent optionals, text) and "
                "SERDEFRAME ops: messages decoded from random CRC-valid frames, each through to_value/from_value and "
                "to_string/from_str, compared with PartialEq. Non-trivial = distinct messages/strings that contain a "
                "string, a list or an optional field.")

    def trusted(self):
        return ["serde, serde_derive, serde_json and tinyvec's serde support: assumed structure-preserving, exercised "
                "on every op counted here", "PartialEq of the crate's types as the equality of C20"]

    def gen(self, ctx):
        g = gen_for(ctx)
        r = ctx.rng("gen")
        pools = [list(range(32, 127)), list(range(160, 256)), [0, 0xA4, 0xE9, 0xFF, 0x100], [0x7FF, 0x800, 0xFFFF, 0x1F600]]
        for N in (7, 31, 127, 255):
            for _ in range(25 if ctx.tier == "quick" else 300):
                pool = r.choice(pools)
                n = r.choice([0, 1, N - 1, N, N + 1, N // 2, N // 3])
                s = " ".join(str(r.choice(pool)) for _ in range(n))
                yield (f"SERDESTR 88591 {N} {s}".rstrip(), "str-88591", True)
                yield (f"SERDESTR astr {N} {s}".rstrip(), "str-astr", True)
        per = 4 if ctx.tier == "quick" else 40
        for n in g.numbers:
            for _ in range(per):
                yield ("SERDEMSG " + g.message(r, n, "valid"), "generated", True)
            yield ("SERDEMSG " + g.message(r, n, "valid", lens=10 ** 6), "lists-at-capacity", True)
        # values the encoder would refuse are values all the same: unrecognised signal descriptors (aliases of table
        # entries in high planes, other bands); floats stay finite (JSON has no NaN / inf, and the property excludes NaN)
        for f in g.frags.values():
            if f["macro"] == "msm_data_seg_frag":
                nums = [x for x in g.numbers if g.mod_of[x] and f["id"] in g.frags[g.mod_of[x]]["refs"]]
                for num in nums[:2]:
                    mf = g.frags[g.mod_of[num]]
                    for _ in range(4):
                        toks = []
                        for _n, x in mf["fields"]:
                            toks += g.msm(r, f, "valid", invalid="badsig") if x == f["id"] else g.frag(r, x, "valid")
                        yield ("SERDEMSG %d %s" % (num, " ".join(toks)), "unrecognised-descriptor", True)
        for n, fid in ((1059, "df_msg1059_biases"), (1065, "df_msg1065_biases")):
            if n in g.numbers:
                for _ in range(6):
                    head = g.frag(r, g.mod_of[n], "valid")
                    c = [k for k, t in enumerate(head) if t.startswith("c")][0]
                    yield ("SERDEMSG %d %s" % (n, " ".join(head[:c] + g.bias_list(r, fid, "valid", shape="unrecognised"))), "unrecognised-descriptor", True)
        from msggen import hostile_payload
        for n in g.numbers:
            for _ in range(2 if ctx.tier == "quick" else 20):
                yield ("SERDEFRAME " + hx(mk_frame(hostile_payload(r, n, r.choice([40, 200, 600]), "random"))), "decoded", True)
        # messages decoded from frames the encoder would never produce but the decoder accepts: encoder output with a
        # changed bit / byte (checksum recomputed), MSM frames whose cell mask leaves satellites or signals without cells
        encs = ["ENC " + g.message(r, n, r.choice(["valid", "safe"])) for n in g.numbers for _ in range(2 if ctx.tier == "quick" else 6)]
        for a in ctx.run_all([ctx.exe_release], encs, 20.0):
            if a and " " not in a and all(ch in "0123456789abcdef" for ch in a):
                for v in mutate_frame(r, bytes.fromhex(a))[:2]:
                    yield ("SERDEFRAME " + hx(v), "decoded-mutated-encoder-output", True)
        for fr in nul_descriptor_frames(r):
            yield ("SERDEFRAME " + hx(fr), "decoded-nul-descriptor", True)
        from props.l5 import msm_payload_bits
        for n in [x for x in g.numbers if 1071 <= x <= 1137]:
            for (ns, ng) in [(2, 2), (3, 1), (8, 8), (4, 3)]:
                nc = ns * ng
                for cm in (1, 1 << (nc - 1), (1 << nc) - 1, 3, (1 << nc) - 2):
                    p = msm_payload_bits(r, n, r.sample(range(64), ns), r.sample(range(1, 32), ng), cellmask=(cm, nc))
                    yield ("SERDEFRAME " + hx(mk_frame(p)), "decoded-msm-sparse-cells", True)

    def run(self, ctx):
        # SERDEMSG / SERDEFRAME have no model counterpart (derive + format are not modelled): oracle only
        if ctx.replay:
            return super().run(ctx)
        items = list(self.gen(ctx))
        str_items = [i for i in items if i[0].startswith("SERDESTR")]
        msg_items = [i for i in items if not i[0].startswith("SERDESTR")]
        self.gen = lambda c: str_items
        extra = super().run(ctx)
        ops = [i[0] for i in msg_items]
        fails = 0
        builds = [("release", ctx.exe_release)]
        if getattr(ctx, "exe_nostd", None) and os.path.exists(ctx.exe_nostd):
            builds.append(("nostd", ctx.exe_nostd))      # serde on, the crate's std feature off
        for prof, exe_ in builds:
            ans = ctx.run_all([exe_], ops, 20.0)
            for op, a in zip(ops, ans):
                if not a.startswith("PASS"):
                    fails += 1
                    if len(ctx.violations) < 60:
                        ctx.violations.append({"op": op[:3000], "profile": prof, "oracle": a[:300]})
        ctx.cov["evaluations"] += len(ops)
        ctx.cov["distinct_nontrivial"] += len(set(ops))
        ctx.cov["oracle_failures"] += fails
        ctx.cov["classes"]["serde-message (oracle only)"] = len(ops)
        return extra


@register
class C19(Prop):
    id = "C19"
    use_oracle = False

    def rule(self):
        return ("Real builds from /repo's working tree: cargo check --no-default-features for the empty selection, "
                "all_msgs without std, every single message feature and every single feature + serde (both tiers, exhaustive), "
                "serde alone, std alone, seeded pairs and single + std; per-feature driver builds (quick 5 seeded + suspicious rows, thorough all) "
                "that decode a fixed corpus (the repository's test frames of every type, five hostile payload shapes of every "
                "supported number, MSM frames with one or both masks empty, unsupported numbers) and are compared with the full build: type n identical Debug text, every other number "
                "MsgNotSupported. Non-trivial = distinct configurations built.")

    def trusted(self):
        return ["rustc / cargo decide 'builds'; rustc's name resolution and cfg evaluation inside macro bodies are "
                "not modelled (the Lean closure theorems cover module gates and use-dependencies only)"]

    def assumptions(self):
        return ["cargo check succeeding is taken as 'the crate builds' for library-only configurations"]

    def run(self, ctx):
        sch = json.load(open(os.path.join(ctx.root, "work", "schema.json")))
        feats = sch["msg_features"]
        r = ctx.rng("cfg")
        thorough = ctx.tier == "thorough"
        # single-feature selections whose module graph is not dependency-closed (computed from the translated
        # gates / uses, as in Lean's `Features.closed`) are always built
        def enabled(fs, m):
            if m in sch["gates"]:
                return any(x in fs for x in sch["gates"][m])
            inc = dict((a, b) for a, b in sch["includes"])
            return (inc[m] in fs) if m in inc else True
        open_cfgs = [f for f in feats if any(enabled([f], m) and not enabled([f], d) for m, ds in sch["uses"].items() for d in ds)]
        # cargo check is cheap (all single-feature selections in well under a minute on 8 slots): both tiers build
        # every one of them; the tiers differ in the number of serde combinations and per-feature decode drivers
        singles = list(feats)
        configs = [("", "empty")] + [("all_msgs", "all_msgs-nostd")] + [(f, "single") for f in singles]
        # every single feature together with serde (derives on fragments shared by few messages), serde alone, and
        # seeded pairs / single + std (a gate that is wrong only for a combination)
        configs += [(f + ",serde", "single+serde") for f in feats] + [("serde", "serde-only"), ("std", "std-only")]
        for _ in range(40 if thorough else 12):
            a, b = r.sample(feats, 2)
            configs.append((a + "," + b, "pair"))
        configs += [(f + ",std", "single+std") for f in r.sample(feats, 24 if thorough else 6)]
        tdir = os.path.join(ctx.root, "work", "c19-target")
        results = []
        t0 = time.time()
        jobs = []
        nslots = 8
        pending = list(configs)
        running = []
        env = dict(os.environ, CARGO_NET_OFFLINE="true")

        def start(cfg, slot):
            cmd = ["cargo", "check", "--offline", "--lib", "--no-default-features", "--manifest-path", os.path.join(ctx.repo, "Cargo.toml"),
                   "--target-dir", f"{tdir}-{slot}"]
            if cfg[0]:
                cmd += ["--features", cfg[0]]
            return subprocess.Popen(cmd, stdout=subprocess.PIPE, stderr=subprocess.PIPE, env=env)

        free = list(range(nslots))
        while pending or running:
            while pending and free:
                cfg = pending.pop(0)
                slot = free.pop()
                running.append((cfg, slot, start(cfg, slot)))
            for item in list(running):
                cfg, slot, p = item
                if p.poll() is not None:
                    out, err = p.communicate()
                    results.append((cfg, p.returncode, err.decode(errors="replace")[-1500:]))
                    running.remove(item)
                    free.append(slot)
            time.sleep(0.05)
        # a failing configuration is re-run once on its own: concurrent first builds of dependency build
        # scripts (feature probes through a shared temporary path) were seen to collide; a real failure
        # is deterministic and fails again
        retried = 0
        for i, (cfg, rc, err) in enumerate(results):
            if rc != 0:
                p = start(cfg, 0)
                out, err2 = p.communicate()
                retried += 1
                results[i] = (cfg, p.returncode, err2.decode(errors="replace")[-1500:])
        ctx.cov["configurations_retried"] = retried
        fails = 0
        classes = {}
        for cfg, rc, err in results:
            classes[cfg[1]] = classes.get(cfg[1], 0) + 1
            if rc != 0:
                fails += 1
                ctx.violations.append({"op": f"cargo check --no-default-features --features '{cfg[0]}'", "profile": "check",
                                       "oracle": "FAIL C19 does not build: " + err[-600:]})
        # the resolved dependency graph of selections without the crate's std feature: no run-time dependency may be
        # compiled with its own `std` / `alloc` feature (the host has std, so a host build cannot show it)
        for feat in ["", singles[0], "serde", singles[-1] + ",serde", "all_msgs"]:
            cmd = ["cargo", "metadata", "--format-version", "1", "--offline", "--no-default-features", "--manifest-path", os.path.join(ctx.repo, "Cargo.toml")]
            if feat:
                cmd += ["--features", feat]
            pm = subprocess.run(cmd, stdout=subprocess.PIPE, stderr=subprocess.PIPE, env=env)
            classes["dependency-features"] = classes.get("dependency-features", 0) + 1
            if pm.returncode != 0:
                fails += 1
                ctx.violations.append({"op": " ".join(cmd[1:]), "profile": "metadata", "oracle": "FAIL C19 cargo metadata: " + pm.stderr.decode(errors="replace")[-300:]})
                continue
            md = json.loads(pm.stdout)
            pk = {p_["id"]: p_ for p_ in md["packages"]}
            nodes = {n_["id"]: n_ for n_ in md["resolve"]["nodes"]}
            root = md["resolve"]["root"]
            seen, todo = set(), [root]
            while todo:
                cur = todo.pop()
                if cur in seen:
                    continue
                seen.add(cur)
                if any("proc-macro" in t_["kind"] for t_ in pk[cur]["targets"]):
                    continue            # runs on the build host
                for dep in nodes[cur]["deps"]:
                    if any(k_["kind"] is None for k_ in dep["dep_kinds"]):
                        todo.append(dep["pkg"])
            for pid in seen:
                if pid == root or any("proc-macro" in t_["kind"] for t_ in pk[pid]["targets"]):
                    continue
                bad = [f_ for f_ in nodes[pid]["features"] if f_ in ("std", "alloc")]
                if bad:
                    fails += 1
                    ctx.violations.append({"op": "cargo metadata --no-default-features --features '%s'" % feat, "profile": "metadata",
                                           "oracle": "FAIL C19 dependency %s is compiled with feature %s although the crate's std feature is off: the selection cannot build for a target without std" % (pk[pid]["name"], ",".join(bad))})
        # per-feature decode drivers
        drv = FeatDriver(ctx, sch)
        # rows whose feature, module and number do not name the same message are always exercised
        suspicious = sorted({row["feature"] for row in sch["dispatch"]
                             if row["feature"] != "msg%d" % row["number"] or row["module"] != row["feature"]} |
                            {f for m, f in sch["includes"] if m != f})
        suspicious = [f for f in suspicious if f in feats]
        for row in sch["dispatch"]:
            if "msg%d" % row["number"] in feats and row["feature"] != "msg%d" % row["number"]:
                suspicious.append("msg%d" % row["number"])
        feats_drv = feats if thorough else sorted(set(r.sample(feats, 5) + suspicious))
        dres = drv.run(feats_drv)
        for f, ok, why in dres:
            classes["feature-driver"] = classes.get("feature-driver", 0) + 1
            if not ok:
                fails += 1
                ctx.violations.append({"op": f"feature driver --features {f}", "profile": "release", "oracle": "FAIL C19 " + why})
        ctx.cov["evaluations"] = len(results) + len(dres)
        ctx.cov["distinct_nontrivial"] = len({c[0][0] for c in results}) + len(dres)
        ctx.cov["oracle_failures"] = fails
        ctx.cov["classes"] = classes
        ctx.cov["exhaustive"] = True      # over single-feature selections (cargo check); drivers: thorough only
        ctx.cov["samples"] = [{"config": c[0][0] or "<none>", "class": c[0][1], "cargo_check_rc": c[1]} for c in results[:6]] + \
                             [{"feature_driver": f, "ok": ok} for f, ok, _ in dres[:3]]
        ctx.cov["build_wall_s"] = round(time.time() - t0, 1)
        for s in range(nslots):
            pass
        return {}


class FeatDriver:
    """builds harness/featdrv with exactly one message feature and compares its decodes with the full build"""

    def __init__(self, ctx, sch):
        self.ctx, self.sch = ctx, sch
        self.dir = os.path.join(ctx.root, "harness", "featdrv")

    def corpus(self):
        frames = []
        td = os.path.join(self.ctx.repo, "testdata")
        seen = {}
        for fn in sorted(os.listdir(td)):
            if fn.endswith(".rtcm"):
                num = fn[3:7]
                if seen.get(num, 0) < 2:
                    seen[num] = seen.get(num, 0) + 1
                    frames.append(open(os.path.join(td, fn), "rb").read().hex())
        frames.append(mk_frame(bytes([0x47, 0xE0, 1, 2, 3])).hex())   # 1150: unsupported everywhere
        frames.append(mk_frame(b"").hex())
        # hostile frames of every supported number (and a few unsupported ones): the classification by number
        # must not depend on the payload in a build where the type is not selected
        from props.l5 import msm_payload_bits, MSM_NUMBERS
        r = self.ctx.rng("featdrv-corpus")
        nums = [row["number"] for row in self.sch["dispatch"]] + [0, 1000, 1070, 1078, 1138, 4095]
        for n in nums:
            for L, style in ((2, "zeros"), (30, "zeros"), (30, "ones"), (45, "random"), (200, "random")):
                p = bytearray(L) if style == "zeros" else bytearray([255] * L) if style == "ones" else bytearray(rand_bytes(r, L))
                p[0] = n >> 4
                p[1] = ((n & 15) << 4) | (p[1] & 15)
                frames.append(mk_frame(bytes(p)).hex())
            if 1071 <= n <= 1137:
                for sats, sigs in (([], [3]), ([5], []), ([], []), ([0], [1]), ([63], [31])):
                    frames.append(mk_frame(msm_payload_bits(r, n, sats, sigs)[:60]).hex())
        return frames

    def build_run(self, features, slot, corpus):
        env = dict(os.environ, CARGO_NET_OFFLINE="true")
        tdir = os.path.join(self.ctx.root, "work", f"featdrv-target-{slot}")
        cmd = ["cargo", "build", "--offline", "--release", "--no-default-features", "--target-dir", tdir]
        if features:
            cmd += ["--features", features]
        p = subprocess.run(cmd, cwd=self.dir, stdout=subprocess.PIPE, stderr=subprocess.PIPE, env=env)
        if p.returncode != 0:
            return None, p.stderr.decode(errors="replace")[-800:]
        exe = os.path.join(tdir, "release", "featdrv")
        q = subprocess.run([exe], input=("\n".join(corpus) + "\n").encode(), stdout=subprocess.PIPE)
        return q.stdout.decode(errors="replace").split("\n")[:len(corpus)], ""

    def run(self, feats):
        corpus = self.corpus()
        lock = os.path.join(self.dir, "Cargo.lock")
        if not os.path.exists(lock):
            shutil.copy(os.path.join(self.ctx.repo, "Cargo.lock"), lock)
        full, err = self.build_run("all_msgs", 0, corpus)
        if full is None:
            return [("all_msgs", False, "full driver does not build: " + err)]
        out = []
        from concurrent.futures import ThreadPoolExecutor
        slots = 6

        def one(args):
            k, f = args
            return f, self.build_run(f, 1 + k % slots, corpus)

        # one build per slot at a time
        groups = [feats[i::slots] for i in range(slots)]

        def run_group(gi):
            res = []
            for f in groups[gi]:
                res.append((f, self.build_run(f, 1 + gi, corpus)))
            return res

        with ThreadPoolExecutor(max_workers=slots) as ex:
            for res in ex.map(run_group, range(slots)):
                for f, (lines, err) in res:
                    if lines is None:
                        lines, err = self.build_run(f, 1, corpus)      # once more, on its own
                    if lines is None:
                        out.append((f, False, "driver does not build: " + err)); continue
                    num = int(f[3:])
                    ok, why = True, ""
                    for fr, a, b in zip(corpus, full, lines):
                        raw = bytes.fromhex(fr)
                        n = ((raw[3] << 4) | (raw[4] >> 4)) if len(raw) >= 8 else None
                        if n == num:
                            if a != b:
                                ok, why = False, f"frame of type {n} decodes differently: {b[:80]} vs full build {a[:80]}"
                        elif n is None:
                            if b != "Empty":
                                ok, why = False, f"empty frame gives {b[:60]}"
                        else:
                            if b != f"MsgNotSupported(MsgNotSupportedT {{ message_number: {n} }})":
                                ok, why = False, f"frame of type {n} under feature {f} gives {b[:80]}"
                    out.append((f, ok, why))
        return out
