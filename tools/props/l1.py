"""C03, C04, C05, C06, C13: frame acceptance, corruption, scanner, chunking, suffix independence."""
from props import Prop, register
from gencommon import *


def near_misses(r, f):
    """variants of a valid frame f"""
    out = []
    g = bytearray(f); g[0] = r.choice([0xD2, 0x53, 0xD1, 0x00, 0xFF]); out.append(("wrong-preamble", bytes(g)))
    for cut in sorted(set([0, 1, 2, 3, 5, 6, len(f) - 1, len(f) - 2, r.randrange(len(f))])):
        if 0 <= cut < len(f):
            out.append(("truncated", f[:cut]))
    g = bytearray(f); i = r.randrange(24); g[len(f) - 3 + i // 8] ^= 0x80 >> (i % 8); out.append(("crc-one-bit", bytes(g)))
    g = bytearray(f); g[len(f) - 1 - r.randrange(3)] = (g[len(f) - 1] + r.randrange(1, 256)) & 0xFF; out.append(("crc-one-byte", bytes(g)))
    g = bytearray(f); g[1] ^= r.randrange(1, 64) << 2; out.append(("reserved-bits-stale-crc", bytes(g)))
    p = f[3:-3]
    out.append(("reserved-bits-fresh-crc", mk_frame(p, r.randrange(1, 64))))
    g = bytearray(f); g[2] = (g[2] + r.choice([1, 255, 2])) & 0xFF; out.append(("length-perturbed", bytes(g) + rand_bytes(r, 4)))
    g = bytearray(f); g[1] ^= r.choice([1, 2, 3]); out.append(("length-high-perturbed", bytes(g) + rand_bytes(r, 3)))
    out.append(("suffix", f + rand_bytes(r, r.randrange(1, 9))))
    out.append(("suffix-frame", f + mk_frame(rand_bytes(r, 3))))
    return out


@register
class C03(Prop):
    id = "C03"

    def rule(self):
        return ("FRAME ops on: valid frames of every payload length L (quick: 0..16, 1020..1023 and a seeded sample; "
                "thorough: all 0..=1023), near-misses of each (wrong preamble, truncations, checksum off by one "
                "bit/byte, reserved bits set with stale/fresh checksum, length field perturbed, suffixes), valid frames whose "
                "checksum is a chosen value (000000, FFFFFF, ff/00 bytes, a preamble byte, literals of the sources: the last "
                "three payload bytes are solved for) with their near-misses and checksum truncations, slices beyond 64 KiB, random "
                "slices. Non-trivial = distinct slices that pass the preamble and extent tests, i.e. reach the "
                "CRC comparison.")

    def trusted(self):
        return ["crc-any's crc24lte_a is not modelled: checked against the bit-serial definition on every op "
                "(Lean model) and against an independent bitwise CRC inside the harness"]

    def assumptions(self):
        return ["MessageFrame::new is modelled by hand (Rtcm.frameNew); tie = correspondence on the ops counted here"]

    def lengths(self, ctx):
        if ctx.tier == "thorough":
            return list(range(1024))
        r = ctx.rng("len")
        return sorted(set(list(range(17)) + [255, 256, 257, 511, 512, 767, 768, 769, 1020, 1021, 1022, 1023] +
                          [r.randrange(1024) for _ in range(40)] + dict_ints(0, 1023, ctx.repo, 60, r) + new_ints(0, 1023, ctx.repo)))

    def gen(self, ctx):
        r = ctx.rng("gen")
        for L in self.lengths(ctx):
            f = mk_frame(payload_for(r, L, r.choice(SUPPORTED + [0, 4095, 1150])), 0)
            yield ("FRAME " + hx(f), "valid", True)
            if L < 40 or L % 97 == 0 or ctx.tier == "thorough" and L % 7 == 0:
                for cls, d in near_misses(r, f):
                    yield ("FRAME " + hx(d), cls, spec_frame(d)[1])
        hc = huge_cases(r)
        for d in (hc if ctx.tier == "thorough" else r.sample(hc, 8)):
            yield ("FRAME " + hx(d), "huge-slice", True)
        for total, f in big_cases(r):
            yield ("BIGFRAME %d %s" % (total, hx(f)), "gigabyte-slice", True)
        # valid frames whose checksum is a chosen value (zero, all ones, ff/00 bytes, a preamble byte, literals
        # of the sources), their near-misses and every truncation of their checksum field
        for c in special_crcs(ctx.repo):
            for L in (3, r.choice([4, 5, 19, 60])):
                f = frame_with_crc(r, L, c, r.choice(SUPPORTED), r.choice([0, 0, 63]))
                yield ("FRAME " + hx(f), "special-checksum", True)
                yield ("SCAN " + hx(rand_bytes(r, 2).replace(b"\xd3", b"\x00") + f + f), "special-checksum-scan", True)
                for cut in (1, 2, 3):
                    yield ("FRAME " + hx(f[:-cut]), "special-checksum-truncated", True)
                for cls, d in near_misses(r, f):
                    yield ("FRAME " + hx(d), cls, spec_frame(d)[1])
        for _ in range(300 if ctx.tier == "quick" else 3000):
            n = r.choice([0, 1, 5, 6, 7, r.randrange(0, 40)])
            d = bytearray(rand_bytes(r, n))
            if n and r.random() < 0.7:
                d[0] = 0xD3
            if n > 2 and r.random() < 0.7:
                d[1] &= 0xFC; d[2] = r.randrange(0, max(1, n))
            yield ("FRAME " + hx(d), "random", spec_frame(bytes(d))[1])


@register
class C13(Prop):
    id = "C13"

    def rule(self):
        return ("FRAME ops on valid frames with L in {0,1,2,3} and a sample (thorough: every L) followed by "
                "suffixes {none, 1 byte, 2 bytes, 4 bytes, many, another frame}; the oracle additionally re-parses "
                "each accepted frame with three fixed suffixes and compares every attribute and the Debug form of "
                "the decoded message. Non-trivial = accepted frames with a non-empty suffix.")

    def assumptions(self):
        return ["decoded message is a function of message_number() and data() (from_message_frame reads nothing else); "
                "checked by the oracle through Debug equality"]

    def gen(self, ctx):
        r = ctx.rng("gen")
        Ls = list(range(1024)) if ctx.tier == "thorough" else sorted(set([0, 1, 2, 3, 4, 5, 19, 1023] + [r.randrange(1024) for _ in range(25)]))
        for L in Ls:
            num = r.choice(SUPPORTED + [1150, 0, 2048, 3053, 4095, 2048 + r.randrange(2048)])
            f = mk_frame(payload_for(r, L, num), r.choice([0, 0, 5]))
            yield ("FRAME " + hx(f), "bare", False)
            sfxs = [b"\x00", b"\x01\x02", b"\x01\x02\x03\x04", rand_bytes(r, 40), mk_frame(payload_for(r, 5, 1005))]
            if L in (0, 1, 2, 1023):
                sfxs.append(bytes(65536 - L - 6 + r.choice([0, 1, 5])))
            if L > 8 and ctx.tier == "thorough":
                sfxs = sfxs[:2]
            for s in sfxs:
                yield ("FRAME " + hx(f + s), "suffix-%d" % min(len(s), 9), True)
                yield ("SCAN " + hx(f + s), "scan-suffix", True)
        for total, f in big_cases(r)[::3]:
            yield ("BIGFRAME %d %s" % (total, hx(f)), "gigabyte-suffix", True)
        # what comes BEFORE the frame in the scanned buffer must not matter either
        for s in rejected_then_short(r):
            yield ("SCAN " + hx(s), "rejected-prefix-then-short-frame", True)
            yield ("ITER " + hx(s), "rejected-prefix-then-short-frame", True)
        for s in stray_cases(r)[:8] + overlap_cases(r)[::5]:
            yield ("SCAN " + hx(s), "dead-prefix-then-frame", True)
        for c in special_crcs(ctx.repo)[:12]:
            f = frame_with_crc(r, r.choice([3, 5, 30]), c, r.choice(SUPPORTED))
            yield ("FRAME " + hx(f), "bare", False)
            for sfx in (b"\x00", b"\xff\xff", rand_bytes(r, 9), f):
                yield ("FRAME " + hx(f + sfx), "special-checksum-suffix", True)
        # decoders must not see bytes after the frame: inconsistent internal lengths followed by plausible data
        for fr in frames_1029_overlong(r, 60 if ctx.tier == "quick" else 600):
            yield ("DEC " + hx(fr), "internal-length-beyond-payload", True)
            yield ("FRAME " + hx(fr), "internal-length-beyond-payload", True)


def damaged_repeats(r, n):
    """a valid frame followed directly by a copy of itself damaged in the checksum / payload / reserved bits
    (a scanner that remembers what it delivered must not wave the repeat through), alone and followed by a
    pristine copy"""
    out = []
    for _ in range(n):
        L = r.choice([0, 1, 2, 5, 19, 60])
        f = mk_frame(payload_for(r, L, r.choice(SUPPORTED)), r.choice([0, 0, 9]))
        nb = len(f) * 8
        picks = [[nb - 1], [nb - 24], [nb - 1 - r.randrange(24)], [nb - 24 + k for k in range(24)], [nb - 8, nb - 16],
                 [8 + r.randrange(6)]] + ([[24 + r.randrange(L * 8)]] if L else [])
        for bits in picks:
            g = bytearray(f)
            for b in bits:
                g[b // 8] ^= 0x80 >> (b % 8)
            out.append(f + bytes(g))
            out.append(f + bytes(g) + f)
            out.append(f + f + bytes(g))
    return out


def preamble_like_frames(r):
    """valid frames whose own header / first payload bytes equal the preamble value 0xD3: second byte
    (reserved bits 110100 with L in 768..1023), third byte (L = 211, 467, 723, 979), both, and payloads
    starting with 0xD3"""
    out = []
    for resv, L in ((52, 768), (52, 1023), (52, 979), (0, 211), (0, 467), (3, 723), (52, 800)):
        out.append(mk_frame(payload_for(r, L, r.choice(SUPPORTED)), resv))
    out.append(mk_frame(b"\xd3\xd3\xd3" + rand_bytes(r, 4)))
    out.append(mk_frame(b"\xd3\x00\x00" + rand_bytes(r, 3), 52))
    return out


def frames_1029_overlong(r, n):
    """1029 frames whose byte-count field announces 1..8 bytes more than the payload holds, followed by ASCII"""
    out = []
    for i in range(n):
        txt = bytes(r.choice(b"abcdefgh XYZ") for _ in range(r.randrange(0, 12)))
        extra = r.randrange(1, 9)
        bits = []
        for v, w in ((1029, 12), (r.randrange(4096), 12), (r.randrange(65536), 16), (r.randrange(86400), 17),
                     (len(txt) + extra, 7), (len(txt) + extra, 8)):
            bits += [(v >> (w - 1 - j)) & 1 for j in range(w)]
        payload = bytes(int("".join(map(str, bits[k:k + 8])), 2) for k in range(0, 72, 8)) + txt
        out.append(mk_frame(payload) + bytes(r.choice(b"MORE text after the frame 0123456789") for _ in range(extra + 4)))
    return out


@register
class C05(Prop):
    id = "C05"

    def rule(self):
        return ("SCAN and ITER ops on seeded byte streams mixing valid frames, garbage, stray 0xD3, corrupted, "
                "truncated, long-announcing headers and frames nested in payloads; frames with chosen checksum values; frames whose "
                "header bytes equal the preamble; every short frame as the very end of the buffer behind every kind of prefix. Oracle: independent first-event "
                "scanner in the harness (earliest 0xD3 whose candidate is accepted or incomplete), frame bytes = "
                "buffer bytes ending at consumed, iterator = repeated scans. Non-trivial = distinct streams with "
                "at least two candidate kinds.")

    def gen(self, ctx):
        r = ctx.rng("gen")
        n = 400 if ctx.tier == "quick" else 6000
        for _ in range(n):
            s, kinds = stream_mix(r, r.randrange(1, 7))
            yield ("SCAN " + hx(s), "scan", kinds >= 2)
            if r.random() < 0.6:
                yield ("ITER " + hx(s), "iter", kinds >= 2)
        for rep in range(2 if ctx.tier == "quick" else 20):
            for s in stray_cases(r):
                yield ("SCAN " + hx(s), "stray-before-frame", True)
                yield ("ITER " + hx(s), "stray-before-frame", True)
        hc = huge_cases(r)
        for s in (hc if ctx.tier == "thorough" else r.sample(hc, 4)):
            yield ("SCAN " + hx(s), "huge-buffer", True)
            yield ("ITER " + hx(s[:-7] + mk_frame(b"\x3e\xd0") [:8] if False else s), "huge-buffer", True)
        for _ in range(20 if ctx.tier == "quick" else 200):
            s = rand_bytes(r, r.randrange(0, 3000))
            yield ("SCAN " + hx(s), "random", s.count(0xD3) >= 2)
        # buffers ending exactly at a frame boundary, or with 1..7 trailing bytes of different kinds
        for nf in (1, 2, 3):
            fs = b"".join(mk_frame(payload_for(r, r.choice([0, 2, 5, 30]), r.choice(SUPPORTED))) for _ in range(nf))
            for k in range(0, 8):
                for tail in (bytes(k), b"\xd3" * k, (b"\xd3\x00\x00" * 3)[:k], rand_bytes(r, k)):
                    yield ("ITER " + hx(fs + tail), "trailing-bytes", True)
                    yield ("ITER " + hx(rand_bytes(r, r.randrange(1, 9)).replace(b"\xd3", b"\x01") + fs + tail), "garbage-then-frames", True)
        # long frames
        for L in (1023, 1000, 512):
            f = mk_frame(payload_for(r, L, 1077))
            yield ("SCAN " + hx(b"\xd3" + f[:50] + f + f[:7]), "long", True)
            yield ("ITER " + hx(f + f + b"\xd3\x00"), "long", True)
        # frames with chosen checksum values, alone, doubled, after garbage and with every short tail
        for c in special_crcs(ctx.repo):
            f = frame_with_crc(r, r.choice([3, 4, 9, 30]), c, r.choice(SUPPORTED))
            g0 = rand_bytes(r, r.randrange(0, 4)).replace(b"\xd3", b"\x01")
            yield ("SCAN " + hx(g0 + f), "special-checksum", True)
            yield ("ITER " + hx(g0 + f + f + mk_frame(b"")), "special-checksum", True)
            for cut in (1, 2, 3, 4):
                yield ("SCAN " + hx(g0 + f[:-cut]), "special-checksum-truncated", True)
                yield ("ITER " + hx(f + f[:-cut]), "special-checksum-truncated", True)
        for total, f in big_cases(r)[::2]:
            yield ("BIGSCAN %d %s" % (total, hx(f)), "gigabyte-buffer", True)
        for s in preamble_neighbours(r):
            yield ("SCAN " + hx(s), "preamble-neighbour-bytes", True)
            yield ("ITER " + hx(s), "preamble-neighbour-bytes", True)
        for s in rejected_then_short(r):
            yield ("SCAN " + hx(s), "rejected-then-short-frame", True)
            yield ("ITER " + hx(s), "rejected-then-short-frame", True)
        for s in overlap_cases(r):
            yield ("SCAN " + hx(s), "overlapping-candidates", True)
            yield ("ITER " + hx(s), "overlapping-candidates", True)
        for s in preamble_floods(r):
            yield ("XSCAN " + hx(s), "false-preamble-flood", True)
            yield ("XITER " + hx(s), "false-preamble-flood", True)
        for s in damaged_repeats(r, 6 if ctx.tier == "quick" else 20):
            yield ("ITER " + hx(s), "damaged-repeat", True)
            yield ("SCAN " + hx(s), "damaged-repeat", True)
        for f in preamble_like_frames(r):
            yield ("SCAN " + hx(f), "preamble-like-header", True)
            yield ("ITER " + hx(b"\xd3" + f + b"\xd3\xd3" + f), "preamble-like-header", True)
            for cut in (1, 2, 3, 4, 5, 6, len(f) - 1):
                yield ("SCAN " + hx(f[:cut]), "preamble-like-header-truncated", True)
                yield ("SCAN " + hx(b"\x00" + f[:cut]), "preamble-like-header-truncated", True)
        # every frame length class as the very end of the buffer, behind garbage / frames / nothing
        for L in (0, 0, 1, 2, 3, 5):
            f = mk_frame(payload_for(r, L, r.choice(SUPPORTED)))
            bad = bytearray(f); bad[-1] ^= 1
            for pre in (b"", b"\x00", rand_bytes(r, 7).replace(b"\xd3", b"\x02"), mk_frame(payload_for(r, 4, 1005)), b"\xd3"):
                for ff in (f, bytes(bad)):
                    yield ("SCAN " + hx(pre + ff), "frame-at-end", True)
                    yield ("ITER " + hx(pre + ff), "frame-at-end", True)
        yield ("SCAN -", "empty", False)
        yield ("ITER -", "empty", False)


@register
class C06(Prop):
    id = "C06"

    def rule(self):
        return ("SCHED ops (arbitrary interleavings of appending a piece and single scanner calls, finished by "
                "draining) and FEED ops: streams as in C05, cut into consecutive chunks: random cut sets, all one-byte chunks, "
                "cuts at every offset of frames of several lengths, of frames with chosen checksum values and of frames whose header bytes equal the preamble. Oracle: delivered frames, total consumed and remainder equal "
                "those of feeding the whole stream at once (real scanner both times). Non-trivial = distinct "
                "(stream, cut set) with at least one cut strictly inside a frame or candidate and >= 2 chunks.")

    def gen(self, ctx):
        r = ctx.rng("gen")
        n = 300 if ctx.tier == "quick" else 5000
        for _ in range(n):
            s, kinds = stream_mix(r, r.randrange(1, 6), maxlen=30)
            if not s:
                continue
            k = r.randrange(0, 6)
            cuts = sorted(set(r.randrange(0, len(s) + 1) for _ in range(k)))
            parts = [s[a:b] for a, b in zip([0] + cuts, cuts + [len(s)])]
            yield ("FEED " + "|".join(hx(p) for p in parts), "random-cuts", len(parts) >= 2)
        for _ in range(6 if ctx.tier == "quick" else 60):
            s, kinds = stream_mix(r, 3, maxlen=12)
            yield ("FEED " + "|".join(hx(s[i:i + 1]) for i in range(len(s))), "one-byte-chunks", True)
        for s in stray_cases(r):
            cuts = sorted(set(r.randrange(0, min(len(s), 60) + 1) for _ in range(3)))
            parts = [s[a:b] for a, b in zip([0] + cuts, cuts + [len(s)])]
            yield ("FEED " + "|".join(hx(p) for p in parts), "stray-before-frame", True)
        for _ in range(120 if ctx.tier == "quick" else 2500):
            s, kinds = stream_mix(r, r.randrange(1, 6), maxlen=30)
            if not s:
                continue
            cuts = sorted(set(r.randrange(0, len(s) + 1) for _ in range(r.randrange(0, 7))))
            parts = [s[a:b] for a, b in zip([0] + cuts, cuts + [len(s)])]
            ops = []
            for p in parts:
                ops.append("a" + hx(p))
                ops += ["s"] * r.choice([0, 0, 1, 1, 2, 3])
            yield ("SCHED " + "|".join(ops), "schedule", len(parts) >= 2)
        for s in preamble_neighbours(r)[::4]:
            f = mk_frame(payload_for(r, 3, 1005))
            yield ("FEED " + hx(s) + "|" + hx(f), "preamble-neighbour-bytes", True)
            yield ("SCHED a" + hx(s) + "|s|s|a" + hx(f) + "|s", "preamble-neighbour-bytes", True)
        for s in overlap_cases(r)[::3]:
            cuts = sorted(set(r.randrange(0, len(s) + 1) for _ in range(r.randrange(1, 4))))
            parts = [s[a:b] for a, b in zip([0] + cuts, cuts + [len(s)])]
            yield ("FEED " + "|".join(hx(p) for p in parts), "overlapping-candidates", True)
        for s in damaged_repeats(r, 4):
            for k in range(3):
                cuts = sorted(set(r.randrange(0, len(s) + 1) for _ in range(r.randrange(1, 4))))
                parts = [s[a:b] for a, b in zip([0] + cuts, cuts + [len(s)])]
                yield ("FEED " + "|".join(hx(p) for p in parts), "damaged-repeat", True)
        frames = [mk_frame(payload_for(r, 6, 1005)), mk_frame(b""), mk_frame(payload_for(r, 1, 1005)), mk_frame(payload_for(r, 2, 1077), 63)]
        frames += preamble_like_frames(r)
        frames += [frame_with_crc(r, r.choice([3, 5, 8]), c, r.choice(SUPPORTED)) for c in special_crcs(ctx.repo)]
        for f in frames:
            pre = rand_bytes(r, 2).replace(b"\xd3", b"\x03")
            for cut in (range(len(f) + 1) if len(f) < 80 else list(range(0, 9)) + [len(f) - k for k in range(0, 7)] + [r.randrange(9, len(f) - 6)]):
                s = pre + f + f
                yield ("FEED " + hx(s[:2 + cut]) + "|" + hx(s[2 + cut:]), "cut-at-every-offset", True)
                if cut in (len(f) - 1, len(f) - 2, len(f) - 3, 1, 2, 3, 5):
                    yield ("SCHED a" + hx(s[:2 + cut]) + "|s|s|a" + hx(s[2 + cut:]) + "|s", "cut-then-scan", True)
                    yield ("FEED " + hx(f[:cut]) + "|" + hx(f[cut:] + f), "cut-at-every-offset-clean-start", True)


@register
class C04(Prop):
    id = "C04"

    def rule(self):
        return ("FLIP ops: valid frames (payload lengths 0..40 all, plus long ones; all message numbers sampled) x "
                "every single admissible bit (reserved header bits 8..13, payload, checksum) for short frames and "
                "sampled for long ones; all bit pairs for frames <= 10 bytes (thorough: <= 24) and sampled pairs "
                "otherwise; bursts of every length 2..=24 at sampled (thorough: every) start position with random "
                "interior; structured wrong checksums; frames whose own checksum is a chosen value; odd-weight random patterns. Oracle: altered frame rejected as NotValid and not delivered "
                "at offset 0 by the scanner. Non-trivial = distinct (frame, flip set) with a non-empty flip set.")

    def trusted(self):
        return ["crc-any computes CRC-24Q (checked on every op against the bit-serial definition)"]

    def gen(self, ctx):
        r = ctx.rng("gen")
        thorough = ctx.tier == "thorough"
        frames = []
        for L in list(range(0, 12)) + [r.randrange(12, 60) for _ in range(6 if not thorough else 30)] + [255, 1023]:
            frames.append(mk_frame(payload_for(r, L, r.choice(SUPPORTED)), r.choice([0, 0, 63, r.randrange(64)])))

        for c in special_crcs(ctx.repo):
            frames.append(frame_with_crc(r, r.choice([3, 4, 7, 16]), c, r.choice(SUPPORTED), r.choice([0, 0, 63])))
        # altered copies directly behind the frame they were made from, through the iterator and the scanner
        for s in damaged_repeats(r, 10 if not thorough else 30):
            yield ("ITER " + hx(s), "damaged-repeat", True)

        def admissible(nbits):
            return [p for p in range(nbits) if 8 <= p < 14 or p >= 24]

        for f in frames:
            nb = len(f) * 8
            adm = admissible(nb)
            h = hx(f)
            singles = adm if (len(f) <= 70 or thorough) else r.sample(adm, 300)
            for p in singles:
                yield (f"FLIP {h} {p}", "single", True)
            if len(f) <= (24 if thorough else 10):
                for i in range(len(adm)):
                    for j in range(i + 1, len(adm)):
                        yield (f"FLIP {h} {adm[i]},{adm[j]}", "pair-all", True)
            else:
                for _ in range(400 if thorough else 80):
                    a, b = r.sample(adm, 2)
                    yield (f"FLIP {h} {a},{b}", "pair-sampled", True)
            starts = [s for s in adm]
            for ln in range(2, 25):
                ss = starts if (thorough and len(f) <= 40) else r.sample(starts, min(len(starts), 6))
                for s in ss:
                    bits = [s, s + ln - 1] + [s + k for k in range(1, ln - 1) if r.random() < 0.5]
                    bits = sorted(set(b for b in bits if b < nb and (8 <= b < 14 or b >= 24)))
                    if bits:
                        yield (f"FLIP {h} " + ",".join(map(str, bits)), f"burst", True)
            # structured wrong checksums (each is a burst of at most 24 bits inside the checksum field): mirrored,
            # byte-swapped, complemented, rotated, off by one, checksums of other CRC-24 variants and of other ranges
            c = (f[-3] << 16) | (f[-2] << 8) | f[-1]
            body = f[:-3]
            cands = {int(format(c, "024b")[::-1], 2), ((c & 0xFF) << 16) | (c & 0xFF00) | (c >> 16), c ^ 0xFFFFFF,
                     ((c << 8) | (c >> 16)) & 0xFFFFFF, ((c >> 8) | (c << 16)) & 0xFFFFFF, (c + 1) & 0xFFFFFF, (c - 1) & 0xFFFFFF,
                     c ^ 0x864CFB, c ^ 0xB704CE, crc24_variant(body, 0xB704CE, 0x864CFB), crc24_variant(body, 0xFFFFFF, 0x864CFB),
                     crc24_variant(body, 0, 0x5D6DCB), crc24q(body[:-1]) if len(body) > 3 else c, crc24q(body[1:]), crc24q(body + b"\x00"),
                     int(format(crc24q(bytes(int(format(b, "08b")[::-1], 2) for b in body)), "024b")[::-1], 2)}
            for w in sorted(cands):
                if w != c:
                    bits_ = [nb - 24 + i for i in range(24) if ((w ^ c) >> (23 - i)) & 1]
                    yield (f"FLIP {h} " + ",".join(map(str, bits_)), "checksum-substitution", True)
            for _ in range(60 if thorough else 15):
                k = r.choice([3, 5, 7, 9, 11, 21, 33])
                if k <= len(adm):
                    yield (f"FLIP {h} " + ",".join(map(str, sorted(r.sample(adm, k)))), "odd", True)
