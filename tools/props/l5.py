"""Message-level properties: C01, C02, C09, C10, C12, C14, C15, C16, C17."""
import os
from props import Prop, register
from gencommon import *
from msggen import Gen, hostile_payload, fbits

MSM_NUMBERS = [n for n in SUPPORTED if 1071 <= n <= 1137]
# entries on one satellite of a 1059 / 1065 list: around every power of two up to the capacity (5-bit count
# field, 8-bit counters, the capacity itself)
FLOOD_SIZES = [31, 32, 33, 63, 64, 65, 127, 128, 129, 255, 256, 257, 270, 287, 288, 289, 300, 389, 390]


def bias_op(g, r, n, fid, mode, shape):
    head = g.frag(r, g.mod_of[n], "valid")
    c = [k for k, t in enumerate(head) if t.startswith("c")][0]
    return "ENC %d %s" % (n, " ".join(head[:c] + g.bias_list(r, fid, mode, shape=shape)))


def gen_for(ctx):
    return Gen(ctx.root, ctx.repo)


class MsgProp(Prop):
    profile_sensitive = True
    per_op_timeout = 20.0

    def trusted(self):
        return ["tinyvec (push beyond capacity panics, set_len), slice::sort_unstable_by (a sorted permutation), "
                "core::str::from_utf8 (= core Lean's validateUTF8), crc-any: modelled by contract, exercised "
                "differentially",
                "macro_rules! expansion: the model is of the expanded behaviour of the macro bodies"]

    def assumptions(self):
        return ["message values are given as positional token streams; the Rust side builds/dumps them with code "
                "generated from the same translated schema (no Debug/serde/SourceRepr involved)"]

    def second_round(self, ctx, ops, prefix_from, prefix_to):
        """answers of the real code to `ops` turned into new ops (e.g. DEC answers -> ENC ops)"""
        ans = ctx.run_all([ctx.exe_release], ops, self.per_op_timeout)
        out = []
        for a in ans:
            if a.startswith(prefix_from):
                out.append(prefix_to + a[len(prefix_from):])
        return out


@register
class C01(MsgProp):
    id = "C01"

    def rule(self):
        return ("ENC ops on generated values of all supported message types (off-grid reals, boundary integers, "
                "absent/present optionals, list length classes {0,1,cap-1,cap,random}, permuted MSM satellite/cell "
                "order, scattered bias entries, arbitrary text), ENC ops on messages decoded from CRC-valid frames "
                "with random payloads (DEC answers of the real code fed back), and DEC ops on those frames. Oracle "
                "on the real code: built frame decodes to the same type; re-encoding the decoded message "
                "reproduces the frame (else, with duplicate keys / unrecognised bias signals, twice-decoded equal); "
                "decoded messages the encoder accepts are fixed points up to 1059/1065 satellite-group order. "
                "Non-trivial = distinct ops whose encoder result is a frame.")

    def gen(self, ctx):
        g = gen_for(ctx)
        r = ctx.rng("gen")
        per = 6 if ctx.tier == "quick" else 60
        for n in g.numbers:
            for _ in range(per):
                yield ("ENC " + g.message(r, n, "valid"), "generated", True)
        # the same kind of values held in containers with a history (lists that were full, cleared and refilled:
        # stale elements behind the active part); short lists leave the longest stale tails
        for n in g.numbers:
            for k in (0, 1, 2, 3, None):
                yield ("ENCD " + g.message(r, n, "valid", lens=k), "containers-with-history", True)
        # every listing shape of the bias lists, not a random pick of them (descending / scattered satellites,
        # one satellite, all satellites, capacity)
        for n, fid in ((1059, "df_msg1059_biases"), (1065, "df_msg1065_biases")):
            if n not in g.numbers:
                continue
            for shape in ("small", "scattered", "allsats", "many-per-sat", "cap", "empty", "scattered", "small"):
                head = g.frag(r, g.mod_of[n], "valid")
                c = [k for k, t in enumerate(head) if t.startswith("c")][0]
                yield ("ENC %d %s" % (n, " ".join(head[:c] + g.bias_list(r, fid, "valid", shape=shape))), "bias-" + shape, True)
            for k in FLOOD_SIZES:
                yield (bias_op(g, r, n, fid, "valid", "flood%d" % k), "bias-flood", True)
            full = 64 if n == 1059 else 32
            for ns_ in (3, full - 1, full):
                for rows_ in (1, 2, 4):
                    yield (bias_op(g, r, n, fid, "valid", "sigmajor:%dx%d" % (ns_, rows_)), "bias-signal-major", True)
        import itertools
        for n, fid, alpha in ((1059, "df_msg1059_biases", (0, 32, 33, 63)), (1065, "df_msg1065_biases", (0, 16, 30, 31))):
            if n in g.numbers:
                for seq in itertools.product(alpha, repeat=4):
                    yield (bias_op(g, r, n, fid, "valid", "seq:" + ",".join(map(str, seq))), "bias-sequence-small-scope", True)
        # MSM inputs of every invalid class: the encoder must refuse them; if it accepts one, its frame must still
        # decode to the same type and re-encode
        for f in g.frags.values():
            if f["macro"] == "msm_data_seg_frag":
                nums = [x for x in g.numbers if g.mod_of[x] and f["id"] in g.frags[g.mod_of[x]]["refs"]]
                for num in nums[:2]:
                    mf = g.frags[g.mod_of[num]]
                    for inv in ("sat0", "sat65", "cellsat0", "badsig", "dupsat", "dupcell", "dupcell64", "gridx4", "mismatch-extra-sat",
                                "mismatch-extra-cell", "cells65", "empty", "only-sats", "only-cells"):
                        toks = []
                        for _, x in mf["fields"]:
                            toks += g.msm(r, f, "valid", invalid=inv) if x == f["id"] else g.frag(r, x, "valid")
                        yield ("ENC %d %s" % (num, " ".join(toks)), "msm-invalid-class", True)
        # relations BETWEEN fields of one message (a == -b, a + b == 0, a == b for different fields): every numeric
        # field carries +k or -k grid steps, the minus sign walking through the first fields one at a time
        for n in g.numbers:
            for k in (1, 11):
                pats = [[1], [-1], [1, -1], [-1, 1]] + [[1] * j + [-1] + [1] * 60 for j in range(14)]
                for signs in pats:
                    yield ("ENC " + g.correlated(r, n, k, signs, lens=2), "correlated-fields", True)
        yield from string_neighbour_ops(g, r)
        # message values extended in place (public mutators) between two encodes: text, descriptor, list
        for kind, cap in (("text", 127), ("desc", 31), ("list", 31)):
            for total in (1, 2, 12, cap - 1, cap, cap + 1):
                for k in sorted({0, 1, total // 2, max(0, total - 1)}):
                    cps = [r.choice([0x61, 0xE9, 0x65E5, 0x1F600, 0x41, 0x7A]) for _ in range(total)]
                    yield ("GROW %s %d %s" % (kind, k, " ".join(map(str, cps))), "value-grown-in-place", True)
        # frames from a used builder: after builds that failed early / late / were refused, and after long frames
        # (C12 says the bytes are those of a fresh builder; here the frame itself must decode and re-encode)
        self.hist_ops = []
        late = [bias_op(g, r, n, fid, "valid", "latefail")[4:] for n, fid in
                ((1059, "df_msg1059_biases"), (1065, "df_msg1065_biases")) if n in g.numbers]
        early = ["1020 " + " ".join(patch_first_int(g.frag(r, "msg1020", "valid"), 1, 127))] if 1020 in g.numbers else []
        big = [g.message(r, n, "valid", lens=10 ** 6) for n in (1057, 1004, 1077, 1029) if n in g.numbers]
        for n in g.numbers:
            for hist in ([r.choice(late)] if late else []) + ([r.choice(early)] if early else []) + [r.choice(big), "E", r.choice(late or big) + " ; " + r.choice(late or big)]:
                op = "BUILDSEQ " + hist + " ; " + g.message(r, n, "safe", lens=r.choice([0, 1, 2, 3]))
                self.hist_ops.append(op)
                yield (op, "used-builder", True)
        # decoded-from-frames messages
        frames = []
        for n in g.numbers:
            for _ in range(3 if ctx.tier == "quick" else 25):
                L = r.choice([20, 60, 150, 400, r.randrange(4, 600)])
                frames.append("DEC " + hx(mk_frame(hostile_payload(r, n, L, r.choice(["random", "sparse", "zeros"])))))
        for f in frames:
            yield (f, "dec-random-payload", True)
        for e in self.second_round(ctx, frames, "MSG ", "ENC "):
            yield (e, "decoded-fed-back", True)

    def run(self, ctx):
        extra = super().run(ctx)
        if ctx.replay:
            return extra
        # the last frame of every used-builder session decodes to its type and re-encodes (fresh builder) to
        # the same bytes
        fails = 0
        ops = getattr(self, "hist_ops", [])
        for prof, exe in (("release", ctx.exe_release), ("relchk", ctx.exe_relchk)):
            ans = ctx.run_all([exe], ops, 20.0)
            frames = []
            for op, a in zip(ops, ans):
                last = a.split(" ; ")[-1].strip() if a else ""
                if last and " " not in last and all(ch in "0123456789abcdef" for ch in last):
                    frames.append((op, last))
            dec = ctx.run_all([exe], ["DEC " + f for _, f in frames], 20.0)
            re_ops, keep = [], []
            for (op, f), d in zip(frames, dec):
                if not d.startswith("MSG "):
                    fails += 1; self.fail(ctx, op, prof, "frame from a used builder decodes to " + d[:60]); continue
                re_ops.append("ENC " + d[4:]); keep.append((op, f))
            re = ctx.run_all([exe], re_ops, 20.0)
            for (op, f), f2 in zip(keep, re):
                if f2 != f:
                    fails += 1; self.fail(ctx, op, prof, "re-encoding the decoded message does not reproduce the frame built by the used builder: " + f[:80] + " vs " + f2[:80])
        ctx.cov["oracle_failures"] += fails
        ctx.cov["used_builder_sessions"] = len(ops)
        return extra

    def fail(self, ctx, op, prof, why):
        if len(ctx.violations) < 60:
            ctx.violations.append({"op": op[:3000], "profile": prof, "oracle": "FAIL C01 " + why})


@register
class C09(MsgProp):
    id = "C09"

    def rule(self):
        return ("ENC ops on generated values without the 'encoder accepts' filter: out-of-range and MIN/MAX integers, "
                "NaN, +-inf, -0, +-huge reals, empty and full lists, inconsistent MSM satellite/signal sets (every "
                "invalid class), bias lists with out-of-range satellites and >31 entries per satellite, text beyond "
                "127 characters; plus Empty/Corrupt/MsgNotSupported. Both build profiles. Oracle: no panic; a returned "
                "frame is 8..1029 bytes, starts 0xD3 + six zero bits, length field = payload size, first 12 payload "
                "bits = message number, checksum confirmed by an independent CRC-24Q; wire-less messages refused. "
                "Non-trivial = distinct ops containing at least one out-of-range/special value or invalid set.")

    def gen(self, ctx):
        g = gen_for(ctx)
        r = ctx.rng("gen")
        per = 8 if ctx.tier == "quick" else 80
        for n in g.numbers:
            for _ in range(per):
                yield ("ENC " + g.message(r, n, "wild"), "wild", True)
        for w in ("E", "C", "U0", "U1150", "U4095", "U65535"):
            yield ("ENC " + w, "no-wire-form", True)
        # frames from a reused builder are well formed too: large payloads followed by small ones and back
        bigs = [g.message(r, n, "valid", lens=10 ** 6) for n in (1057, 1059, 1004, 1012, 1077, 1127, 1029) if n in g.numbers]
        smalls = [g.message(r, n, "valid", lens=1) for n in (1005, 1006, 1001, 1007, 1230, 1013) if n in g.numbers]
        for i in range(12 if ctx.tier == "quick" else 120):
            seq = [r.choice(bigs), r.choice(smalls), r.choice(bigs + smalls), r.choice(smalls)]
            yield ("BUILDSEQ " + " ; ".join(seq), "reused-builder", True)
        # payload sizes around the 255/256-byte boundary (1029: 9 header bytes + text) and byte-aligned bodies
        for t in list(range(240, 256)) + [0, 1, 7]:
            txt = ("é" * (t // 2) + "a" * (t % 2)).encode()     # <= 127 characters, t bytes
            yield ("ENC 1029 i%d i%d i%d b%s" % (r.randrange(4096), r.randrange(65536), r.randrange(86400), hx(txt)), "payload-size-boundary", True)
        for n, fid in ((1059, "df_msg1059_biases"), (1065, "df_msg1065_biases")):
            for shape in ["flood", "flood", "over31", "allsats", "cap", "badsat"] + ["flood%d" % k for k in FLOOD_SIZES]:
                yield (bias_op(g, r, n, fid, "wild", shape), "bias-" + shape.rstrip("0123456789"), True)
        # regression inputs of the repaired defects D2, D3, D4, D5
        for f in g.frags.values():
            if f["macro"] == "msm_data_seg_frag":
                num = [x for x in g.numbers if g.mod_of[x] and f["id"] in g.frags[g.mod_of[x]]["refs"]]
                if num and r.random() < (0.3 if ctx.tier == "quick" else 1.0):
                    toks = []
                    mf = g.frags[g.mod_of[num[0]]]
                    for _, x in mf["fields"]:
                        toks += g.msm(r, f, "valid", invalid="cells65") if x == f["id"] else g.frag(r, x, "valid")
                    yield ("ENC %d %s" % (num[0], " ".join(toks)), "msm-65-cells", True)


@register
class C02(MsgProp):
    id = "C02"

    def rule(self):
        return ("DEC ops on CRC-valid frames with hostile payloads for every supported number: 2-byte payload, "
                "truncations, all-ones, zeros, random, sparse, count fields above capacity, MSM masks with 0, 1..64 and "
                ">64 cells, bias lists with maximal counts; SCAN/ITER ops on raw random and garbage buffers up to 3 kB; "
                "both build profiles, every op under catch_unwind and a time limit. Oracle: outcome is typed / Corrupt "
                "/ Empty / MsgNotSupported, no panic, no hang, decoded floats finite, message equal to itself. "
                "Non-trivial = distinct CRC-valid frames of a supported number with payload >= 2 bytes.")

    def assumptions(self):
        return MsgProp.assumptions(self) + ["no-hang is termination of the model (total Lean functions) plus a "
                                            "watched time limit on the implementation, not a theorem about the Rust loops"]

    def gen(self, ctx):
        g = gen_for(ctx)
        r = ctx.rng("gen")
        thorough = ctx.tier == "thorough"
        for n in g.numbers:
            Ls = [2, 3, 8, 20, 64, 200, 1023] + [r.randrange(2, 1024) for _ in range(2 if not thorough else 12)] + \
                dict_ints(2, 1023, ctx.repo, 3 if not thorough else 40, r) + new_ints(2, 1023, ctx.repo)
            for L in Ls:
                for style in ("ones", "zeros", "random", "sparse") if (thorough or L in (2, 20, 200)) else ("random", "ones"):
                    yield ("DEC " + hx(mk_frame(hostile_payload(r, n, L, style))), "hostile-" + style, True)
        # MSM masks: chosen numbers of satellites and signals
        for n in MSM_NUMBERS:
            for (ns, ng) in [(0, 0), (1, 1), (8, 8), (9, 8), (5, 13), (64, 32), (64, 1), (1, 32), (0, 3), (3, 0), (2, 2)]:
                if not thorough and r.random() < 0.5:
                    continue
                yield ("DEC " + hx(mk_frame(msm_payload(r, n, ns, ng))), "msm-masks", True)
        # containers of exactly 64 (and 63, 1, 2) cells with cell masks at their extremes: only the last cell, only
        # the first, none, all, alternating
        for n in (MSM_NUMBERS if thorough else [x for x in MSM_NUMBERS if x % 10 in (4, 7)]):
            for (ns, ng) in [(64, 1), (32, 2), (16, 4), (8, 8), (4, 16), (2, 32), (1, 1), (63, 1), (21, 3), (1, 2), (9, 7)]:
                nc = ns * ng
                for cm in (1, 1 << (nc - 1), 0, (1 << nc) - 1, 2, 3, int("10" * 32, 2) & ((1 << nc) - 1)):
                    sats = r.sample(range(64), ns)
                    sigs = r.sample(range(32), ng)
                    yield ("DEC " + hx(mk_frame(msm_payload_bits(r, n, sats, sigs, cellmask=(cm, nc)))), "msm-cell-mask-extremes", True)
        # every single satellite-mask bit and signal-mask bit on its own (one MSM type per constellation in the
        # quick tier, all 49 in the thorough tier)
        singles = MSM_NUMBERS if thorough else [x for x in MSM_NUMBERS if x % 10 == 4]
        for n in singles:
            for bit in range(64):
                yield ("DEC " + hx(mk_frame(msm_payload_bits(r, n, [bit], [r.randrange(1, 32)]))), "msm-single-sat-bit", True)
            for bit in range(32):
                yield ("DEC " + hx(mk_frame(msm_payload_bits(r, n, [r.randrange(64)], [bit]))), "msm-single-sig-bit", True)
        for n in (1059, 1065):
            for (ns, nb) in [(13, 31), (63, 31), (63, 6), (1, 31), (0, 0), (32, 12)]:
                yield ("DEC " + hx(mk_frame(bias_payload(r, n, ns, nb))), "bias-max-counts", True)
            # the same satellite in many groups: 256 .. 390 entries on one satellite without any group above 31
            for (ns, nb) in [(9, 31), (12, 31), (9, 29), (10, 26), (13, 30), (2, 31), (20, 13)]:
                yield ("DEC " + hx(mk_frame(bias_payload(r, n, ns, nb, same_sat=r.choice([0, 5, 31])))), "bias-repeated-satellite-groups", True)
        for _ in range(20 if not thorough else 300):
            s = rand_bytes(r, r.randrange(0, 3000))
            yield ("ITER " + hx(s), "raw-random", False)
        for _ in range(20 if not thorough else 300):
            s, _k = stream_mix(r, r.randrange(1, 8), maxlen=200)
            yield ("ITER " + hx(s), "raw-mixed", False)
        yield ("DEC " + hx(mk_frame(b"")), "empty", False)
        for b in range(256):
            yield ("DEC " + hx(mk_frame(bytes([b]))), "one-byte-payload", True)
        for s in preamble_floods(r)[:3]:
            yield ("XITER " + hx(s), "false-preamble-flood", True)
        for fr in nul_descriptor_frames(r)[::3]:
            yield ("DEC " + hx(fr), "nul-in-descriptor-frame", True)
        # frames the real encoder produces from generated values of every type (text with 1..4-byte characters,
        # lists at every length class, MSM sets, bias lists), and variants of them with the checksum recomputed:
        # the decoder paths behind a *valid* prefix, which random payloads hardly ever reach
        encs = []
        for n in g.numbers:
            for _ in range(4 if not thorough else 10):
                encs.append("ENC " + g.message(r, n, r.choice(["valid", "valid", "safe", "wild"])))
        for txt in ("\U0001F600", "a\U00010000", "\U0010FFFF" * 3, "é日\U0001F600x", "\uFEFFtext", "\U0001D11E" * 63):
            encs.append("ENC 1029 i%d i%d i%d b%s" % (r.randrange(4096), r.randrange(65536), r.randrange(86400), hx(txt.encode())))
        ans = ctx.run_all([ctx.exe_release], encs, 20.0)
        for a in ans:
            if a and " " not in a and all(ch in "0123456789abcdef" for ch in a):
                fr = bytes.fromhex(a)
                yield ("DEC " + a, "encoder-output", True)
                for v in mutate_frame(r, fr):
                    yield ("DEC " + hx(v), "encoder-output-mutated", True)
        # 1029 frames written by hand: valid UTF-8 of every sequence length, with consistent and inconsistent counts
        for txt in ("\U0001F600", "ab\U00010348cd", "\U0010FFFF", "\u0800\uFFFF", "\u0080\u07FF", "\U0001F600" * 63, "a" * 255):
            body = txt.encode()[:255]
            for dl in (0, 1, -1):
                bits = int_bits(1029, 12) + int_bits(5, 12) + int_bits(1, 16) + int_bits(2, 17) + \
                    int_bits(min(127, len(txt)), 7) + int_bits(max(0, min(255, len(body) + dl)), 8)
                yield ("DEC " + hx(mk_frame((bits_to_bytes(bits) + body)[:1023])), "text-utf8", True)


def bits_to_bytes(bits):
    while len(bits) % 8:
        bits.append(0)
    out = bytearray()
    for i in range(0, len(bits), 8):
        v = 0
        for b in bits[i:i + 8]:
            v = (v << 1) | b
        out.append(v)
    return bytes(out)


def int_bits(v, n):
    return [(v >> (n - 1 - i)) & 1 for i in range(n)]


def msm_payload(r, n, ns, ng):
    bits = int_bits(n, 12) + [r.getrandbits(1) for _ in range(61)]
    sat = [0] * 64
    for i in r.sample(range(64), ns):
        sat[i] = 1
    sig = [0] * 32
    for i in r.sample(range(1, 32), min(ng, 31)):
        sig[i] = 1
    bits += sat + sig
    bits += [r.getrandbits(1) for _ in range(r.choice([0, 64, 800, 4000]))]
    return bits_to_bytes(bits)[:1023]


def msm_payload_bits(r, n, satbits, sigbits, cellmask=None):
    """MSM payload with exactly the given satellite-mask / signal-mask bit positions (0 = MSB) set (and, if
    given, the cell mask (value, width) right after them)"""
    bits = int_bits(n, 12) + [r.getrandbits(1) for _ in range(61)]
    sat = [0] * 64
    for i in satbits:
        sat[i] = 1
    sig = [0] * 32
    for i in sigbits:
        sig[i] = 1
    bits += sat + sig
    if cellmask is not None:
        bits += int_bits(cellmask[0], cellmask[1])
        bits += [r.getrandbits(1) for _ in range(7000)]
    else:
        bits += [r.getrandbits(1) for _ in range(400)]
    return bits_to_bytes(bits)[:1023]


def bias_payload(r, n, ns, nb, same_sat=None):
    """hostile 1059 / 1065 payload: ns satellite blocks of nb entries each (recognised identifiers), header
    widths and identifiers from the translated schema"""
    import json as _json, os as _os
    sch = _json.load(open(_os.path.join(_os.path.dirname(_os.path.dirname(_os.path.dirname(_os.path.abspath(__file__)))), "work", "schema.json")))
    hdr = sum(sch["dfs"][x]["len"] for _, x in sch["frags"]["msg%d" % n]["fields"] if x in sch["dfs"])
    satbits = 6 if n == 1059 else 5
    bits = int_bits(n, 12) + [r.getrandbits(1) for _ in range(hdr)] + int_bits(ns, 6)
    ids = [i for i, _, _ in sch["bias_tables"]["df_msg%d_biases" % n]]
    for s_ in range(ns):
        bits += int_bits((same_sat if same_sat is not None else s_) % (1 << satbits), satbits) + int_bits(nb, 5)
        for j in range(nb):
            bits += int_bits(ids[j % len(ids)], 5) + [r.getrandbits(1) for _ in range(14)]
    return bits_to_bytes(bits)[:1023]


@register
class C14(MsgProp):
    id = "C14"
    use_oracle = True

    def rule(self):
        return ("DEC ops on CRC-valid frames for all 4096 message numbers x payload shapes {two bytes only, short, "
                "full-length zeros/ones/random} (quick: all numbers with the 2-byte payload, all supported and a "
                "seeded sample of others with the rest), payloads of 0 and 1 byte; reverse direction: every typed "
                "variant generated and encoded. Oracle (Python, on the answers of the real code): EMPTY iff payload "
                "< 2 bytes; UNSUPPORTED n iff n not in the translated dispatch table; else MSG n or CORRUPT, never "
                "another number. Non-trivial = distinct frames with payload >= 2 bytes.")

    def gen(self, ctx):
        g = gen_for(ctx)
        r = ctx.rng("gen")
        self.table = set(g.numbers)
        for n in range(4096):
            yield ("DEC " + hx(mk_frame(hostile_payload(r, n, 2, "zeros"))), "two-bytes", True)
        nums = list(g.numbers) + ([x for x in range(4096)] if ctx.tier == "thorough" else
                                  [r.randrange(4096) for _ in range(150)] + dict_ints(0, 4095, ctx.repo, 120, r) + new_ints(0, 4095, ctx.repo) + [0, 1000, 1018, 1028, 1036, 1040, 1043, 1047,
                                                                             1056, 1069, 1070, 1078, 1138, 1229, 1231, 1299, 1305, 4095])
        for n in nums:
            for L, style in ((5, "random"), (300, "zeros"), (300, "ones"), (700, "random")):
                yield ("DEC " + hx(mk_frame(hostile_payload(r, n, L, style))), "shape-" + style, True)
        yield ("DEC " + hx(mk_frame(b"")), "empty", False)
        for s_ in rejected_then_short(r):
            yield ("SCAN " + hx(s_), "rejected-prefix-then-short-frame", True)
        for b in range(256):
            yield ("DEC " + hx(mk_frame(bytes([b]))), "one-byte-payload", True)
            if b % 16 == 0:
                yield ("DEC " + hx(mk_frame(bytes([b]), 63) + b"\x40\x50"), "one-byte-payload", True)
        for n in g.numbers:
            yield ("ENC " + g.message(r, n, "valid"), "typed-reverse", True)
        # well-formed bodies under another number: frames the real encoder produces for type A with the
        # 12-bit number replaced by B (all supported B for a few A, and each A under its neighbours)
        encs = ["ENC " + g.message(r, n, "safe", lens=r.choice([1, 2, 3])) for n in g.numbers]
        ans = ctx.run_all([ctx.exe_release], encs, 20.0)
        bodies = {}
        for n, a in zip(g.numbers, ans):
            if a and " " not in a and all(ch in "0123456789abcdef" for ch in a):
                bodies[n] = bytes.fromhex(a)[3:-3]
        nums = sorted(bodies)
        for i, a in enumerate(nums):
            others = set(nums[max(0, i - 3):i + 4]) | set(r.sample(nums, 6)) | {0, 4095, (a + 1) % 4096, a ^ 1, a ^ 0x800}
            if a in (1007, 1008, 1033, 1005, 1006, 1001, 1004, 1077, 1057, 1230, 1029) or ctx.tier == "thorough" and i % 4 == 0:
                others |= set(nums)
            for b in sorted(others):
                if b != a:
                    p = bytearray(bodies[a])
                    p[0] = b >> 4
                    p[1] = ((b & 15) << 4) | (p[1] & 15)
                    yield ("DEC " + hx(mk_frame(bytes(p))), "relabelled", True)

    def run(self, ctx):
        extra = super().run(ctx)
        # classification oracle on the answers of the real code
        ops = [l.strip() for l in open(os.path.join(ctx.wdir, "ops.txt")) if l.startswith("DEC ")]
        fails = 0
        for prof, exe in (("release", ctx.exe_release), ("relchk", ctx.exe_relchk)):
            ans = ctx.run_all([exe], ops, 20.0)
            for op, a in zip(ops, ans):
                fr = bytes.fromhex(op.split()[1])
                L = ((fr[1] & 3) << 8) | fr[2]      # the frame's own length field (bytes may follow the frame)
                if L < 2:
                    ok = a == "EMPTY"
                else:
                    n = (fr[3] << 4) | (fr[4] >> 4)
                    if n in self.table:
                        ok = a == "CORRUPT" or a.startswith(f"MSG {n} ") or a == f"MSG {n}"
                    else:
                        ok = a == f"UNSUPPORTED {n}"
                if not ok:
                    fails += 1
                    if len(ctx.violations) < 50:
                        ctx.violations.append({"op": op[:400], "profile": prof, "oracle": "FAIL C14 classification: " + a[:120]})
        ctx.cov["oracle_failures"] += fails
        return extra


@register
class C12(MsgProp):
    id = "C12"

    def rule(self):
        return ("BUILDSEQ ops: sequences (length 1..6; thorough up to 10) drawn from a pool with every message type "
                "(valid values), maximum-length frames, messages failing at the first field (OutOfRange on a biased "
                "field), messages failing late (BufferOverflow after most of the body), Empty/Corrupt/MsgNotSupported, "
                "followed by a target. Oracle: the target's result from the used builder is byte-identical to a "
                "fresh builder's. Non-trivial = distinct sequences of length >= 2.")

    def gen(self, ctx):
        g = gen_for(ctx)
        r = ctx.rng("gen")
        pool = []
        for n in g.numbers:
            pool.append(g.message(r, n, "valid"))
        big = []
        for n in (1057, 1059, 1065, 1004, 1012, 1077, 1127, 1029):
            big.append(g.message(r, n, "valid", lens=10 ** 6))
        early_fail = ["1020 " + " ".join(patch_first_int(g.frag(r, "msg1020", "valid"), 1, 127))]
        # builds refused after most of a long body was written: the last satellite group of a 1059 / 1065
        # list carries more than 31 entries (no typed message can overflow the buffer: C15 list_fits)
        late_fail = []
        for n, fid in ((1059, "df_msg1059_biases"), (1065, "df_msg1065_biases"), (1059, "df_msg1059_biases")):
            if n in g.numbers:
                late_fail.append(bias_op(g, r, n, fid, "valid", "latefail")[4:])
        special = ["E", "C", "U1150"]
        # length ladder: a frame followed by one whose body is 1..3 bytes longer or shorter, so that the
        # second frame's last body byte / checksum lands on bytes the first one left behind
        ladder = []
        for n in (1007, 1008, 1033, 1029, 1001, 1002, 1003, 1004, 1009, 1010, 1011, 1012, 1005, 1006, 1013, 1230):
            if n not in g.numbers:
                continue
            for k in range(0, 12):
                ladder.append(g.message(r, n, "safe", lens=k))
                ladder.append(g.message(r, n, "safe", lens=k))
        # the longest frames the crate can emit: 1059 at capacity over 58..63 satellites, 1057/1065 at capacity
        for k in (58, 59, 60, 61, 62, 63, 63):
            head = g.frag(r, g.mod_of[1059], "safe")
            c0 = [i for i, t in enumerate(head) if t.startswith("c")][0]
            ladder.append("1059 " + " ".join(head[:c0] + g.bias_list(r, "df_msg1059_biases", "valid", shape="capsats%d" % k)))
        for n in (1057, 1060, 1063, 1066):
            if n in g.numbers:
                ladder.append(g.message(r, n, "safe", lens=10 ** 6))
                ladder.append(g.message(r, n, "safe", lens=10 ** 6))
        ans = ctx.run_all([ctx.exe_release], ["ENC " + m for m in ladder], 20.0)
        sized = [(len(a) // 2, m) for m, a in zip(ladder, ans) if not a.startswith("ERR") and a not in ("PANIC", "BAD-OP", "CRASH", "HANG")]
        by_len = {}
        for L, m in sized:
            by_len.setdefault(L, []).append(m)
        pairs = 0
        lens_sorted = sorted(by_len)
        for L in lens_sorted[-8:] + lens_sorted[:-8]:      # the longest frames first: they are few and special
            for dlt in (1, 2, 3, -1, -2, -3, 4, -4):
                if L + dlt in by_len:
                    for a in by_len[L][:3]:
                        for b in by_len[L + dlt][:3]:
                            if pairs < (400 if ctx.tier == "quick" else 4000):
                                pairs += 1
                                yield ("BUILDSEQ " + a + " ; " + b, "length-ladder", True)
                                if pairs % 5 == 0:
                                    yield ("BUILDSEQ " + r.choice(big) + " ; " + a + " ; " + b, "length-ladder-3", True)
                                if pairs % 7 == 0:
                                    yield ("BUILDSEQ " + a + " ; " + r.choice(early_fail + late_fail) + " ; " + b, "ladder-with-failed-build", True)
                                    yield ("BUILDSEQ " + r.choice(late_fail) + " ; " + b, "failed-then-target", True)
        # a build refused at a bit offset inside a byte, then a target ending in that very byte: every refused
        # build x one or two targets of every frame length in the ladder
        fails = failing_builds(g, r, 3 if getattr(ctx, "registered_tier", "quick") == "quick" else 6)
        one_per_len = [(L, by_len[L][:2]) for L in lens_sorted if L <= 140]
        for f in fails:
            for L, ms in one_per_len:
                for m in ms:
                    yield ("BUILDSEQ " + f + " ; " + m, "refused-inside-a-byte-then-target", True)
        # MSM messages refused by a validation test (every class: the 73-bit header is already written), then a target of
        # every short length
        msm_refused = []
        for f_ in g.frags.values():
            if f_["macro"] == "msm_data_seg_frag":
                nums_ = [x for x in g.numbers if g.mod_of[x] and f_["id"] in g.frags[g.mod_of[x]]["refs"]]
                for num in nums_[:1]:
                    mf = g.frags[g.mod_of[num]]
                    for inv in ("sat0", "sat65", "cellsat0", "badsig", "dupsat", "dupcell", "mismatch-extra-sat", "mismatch-extra-cell",
                                "mismatch-swap", "cells65", "only-sats", "only-cells"):
                        toks = []
                        for _n, x in mf["fields"]:
                            toks += g.msm(r, f_, "valid", invalid=inv) if x == f_["id"] else g.frag(r, x, "wild" if x in g.dfs else "valid")
                        msm_refused.append("%d %s" % (num, " ".join(toks)))
        short_targets = [(L, ms) for L, ms in one_per_len if L <= 40]
        for mref in r.sample(msm_refused, min(len(msm_refused), 30)):
            for L, ms in short_targets:
                yield ("BUILDSEQ " + mref + " ; " + ms[0], "msm-refused-then-target", True)
        # any length relation between a frame and the next one (not only neighbours): every short target behind frames
        # of unrelated lengths, shorter and longer, including the longest ones
        allm = [m for L, ms in ((L, by_len[L]) for L in lens_sorted) for m in ms[:1]]
        longest = [m for L in lens_sorted[-6:] for m in by_len[L][:1]]
        for L, ms in one_per_len:
            for prev in r.sample(allm, min(len(allm), 8)) + r.sample(longest, min(len(longest), 2)):
                yield ("BUILDSEQ " + prev + " ; " + ms[0], "any-length-then-target", True)
        # a build that leaves ones behind, then a refused build (each kind of error), then an unaligned target
        targets = [m for L, m in sized][:: max(1, len(sized) // (40 if ctx.tier == "quick" else 400))]
        for t in targets:
            for mid in special + early_fail + late_fail[:1]:
                yield ("BUILDSEQ " + r.choice(big) + " ; " + mid + " ; " + t, "dirty-refused-target", True)
            yield ("BUILDSEQ " + r.choice(big) + " ; E ; C ; " + t, "dirty-refused-target", True)
        # sessions that also go through the crate's second build entry point, build_generated_message (feature
        # test_gen, on by default; outside the Lean model, oracle only): short frame, generated frame(s), target
        shorts = [m for L, m in sized if L <= 40][:40] or pool[:10]
        tg = [m for L, m in sized][:: max(1, len(sized) // 60)]
        for i in range(400 if ctx.tier == "quick" else 3000):
            gsteps = " ; ".join("G %d %d" % (r.choice(g.numbers), r.randrange(1 << 30)) for _ in range(r.choice([1, 1, 2, 3])))
            shape = i % 4
            if shape == 0:
                op = r.choice(shorts) + " ; " + gsteps + " ; " + r.choice(tg)
            elif shape == 1:
                op = gsteps + " ; " + r.choice(tg)
            elif shape == 2:
                op = r.choice(shorts) + " ; " + gsteps
            else:
                op = r.choice(tg) + " ; " + gsteps + " ; " + r.choice(early_fail + late_fail + special) + " ; " + r.choice(tg)
            yield ("BUILDSEQG " + op, "sessions-with-generated-builds", True)
        # long sessions: one builder used hundreds / tens of thousands of times (counters, accumulating state)
        for n_rep in (255, 256, 257, 1029):
            for m1 in (r.choice(shorts), r.choice(early_fail), "E"):
                yield ("BUILDREP %d %s ; %s" % (n_rep, m1, r.choice(tg)), "long-session", True)
        for n_rep, m1 in ((65535, r.choice(shorts)), (65536, r.choice(early_fail)), (65537, r.choice(shorts))):
            yield ("BUILDREP %d %s ; %s" % (n_rep, m1, r.choice(tg)), "long-session", True)
        n_seq = 150 if ctx.tier == "quick" else 2500
        for _ in range(n_seq):
            k = r.randrange(1, 7 if ctx.tier == "quick" else 11)
            seq = []
            for _ in range(k):
                c = r.random()
                seq.append(r.choice(big) if c < 0.2 else r.choice(early_fail) if c < 0.3 else
                           r.choice(late_fail) if c < 0.4 else r.choice(special) if c < 0.45 else r.choice(pool))
            yield ("BUILDSEQ " + " ; ".join(seq), "sequence", k >= 2)


FAILABLE = {"df040": [-8, 127, 25], "df419": [-8, 127], "df134": [0, 1991], "df547": [0, 44243]}


def failing_builds(g, r, per=6):
    """messages the encoder refuses part-way, at many different bit offsets: an integer field with a bias
    (GLONASS frequency channel in 1009-1012 / 1020 / MSM5,7; 1020 year; 1301 epoch) is given a value below its
    range in the j-th place where it occurs"""
    out = []
    orig = g.df_value

    def marked(r_, d, mode):
        t = orig(r_, d, mode)
        if d["id"] in FAILABLE:
            return [x if not x.startswith("i") else "@%s@%s" % (d["id"], x) for x in t]
        return t

    g.df_value = marked
    try:
        plans = [(n, k) for n in (1009, 1010, 1011, 1012) for k in range(1, 14)] + [(1020, None), (1301, None)] + \
                [(n, None) for n in (1085, 1087) for _ in range(8)]
        for n, k in plans:
            if n not in g.numbers:
                continue
            for _ in range(per if k is not None else 2):
                toks = g.message(r, n, "safe", lens=k).split(" ")
                pos = [i for i, t in enumerate(toks) if t.startswith("@")]
                if not pos:
                    continue
                j = r.choice(pos[-2:] + [r.choice(pos)])
                for i in pos:
                    fid, val = toks[i][1:].split("@")
                    toks[i] = ("i%d" % r.choice(FAILABLE[fid])) if i == j else val
                out.append(" ".join(toks))
    finally:
        g.df_value = orig
    return out


def string_neighbour_ops(g, r):
    """a relation between neighbouring fields: descriptor strings ending in a low / high byte, directly followed by a
    zero (or all-ones) byte of the next field, with short and long strings after them (word-at-a-time string code sees
    the neighbour's bytes)"""
    for n in (1007, 1008, 1033):
        if n not in g.numbers:
            continue
        base = g.message(r, n, "safe").split(" ")
        bpos = [i for i, t in enumerate(base) if t.startswith("b")]
        for last in (1, 2, 0x7F, 0x80, 0xA4, 0xFE, 0xFF):
            for body in (b"", b"TRM", b"ABCDEFG", b"ABCDEFGHIJKLMNO", b"\x01\x01\x01"):
                for nxt in (0, 1, 255):
                    for rest in ("-", hx(b"SN-00112233"), hx(b"\x01" * 9)):
                        t = list(base)
                        for j, i in enumerate(bpos):
                            t[i] = "b" + (hx(body + bytes([last])) if j == 0 else rest)
                            if i + 1 < len(t) and t[i + 1].startswith("i"):
                                t[i + 1] = "i%d" % nxt
                        yield ("ENC " + " ".join(t), "string-then-neighbour-byte", True)


def patch_first_int(toks, idx, value):
    out = list(toks)
    ints = [i for i, t in enumerate(out) if t.startswith("i")]
    if len(ints) > idx:
        out[ints[idx]] = "i%d" % value
    return out


@register
class C15(MsgProp):
    id = "C15"

    def rule(self):
        return ("For every list-bearing message type (count-prefixed lists and strings; MSM and bias structures "
                "excluded): ENC with every element count n in 0..=capacity (quick: {0,1,2,cap-1,cap} + seeded), "
                "extreme and random element values, then DEC of the produced frame; frames whose count field is "
                "patched to every value above capacity (CRC recomputed); every truncation point of a full-length "
                "frame (quick: a seeded subset). Oracle (Python + harness): encoder accepts and the frame fits, count "
                "field on the wire = n, decode returns n elements and re-encodes to the same frame; count above "
                "capacity and truncated bodies decode to CORRUPT. Non-trivial = distinct ops with n > 0 or a patched frame.")

    def gen(self, ctx):
        g = gen_for(ctx)
        r = ctx.rng("gen")
        self.g = g
        self.plan = []
        lists = g.list_frags()
        for n, descr in sorted(lists.items()):
            kind, cap, bits = descr[0]
            if kind == "text":
                continue
            ns = list(range(cap + 1)) if (ctx.tier == "thorough" or cap <= 8) else sorted(set([0, 1, 2, cap - 1, cap, r.randrange(cap + 1)]))
            for k in ns:
                op = "ENC " + g.message(r, n, "safe", lens=k)
                self.plan.append((n, k, descr, op))
                yield (op, "count-%s" % kind, k > 0)
                if k in (0, 1, cap):
                    # the same list from a builder whose only earlier build was refused part-way (a count field that is
                    # skipped rather than written shows only then)
                    if not hasattr(self, "_fails"):
                        self._fails = failing_builds(g, r, 1)[:12] + [bias_op(g, r, 1059, "df_msg1059_biases", "valid", "latefail")[4:]]
                    op2 = "BUILDSEQ " + r.choice(self._fails) + " ; " + op[4:]
                    self.plan.append((n, k, descr, op2))
                    yield (op2, "count-%s-used-builder" % kind, True)

    def run(self, ctx):
        extra = super().run(ctx)
        if ctx.replay:
            return extra
        fails = 0
        ops = [p[3] for p in self.plan]
        patched_total = 0
        for prof, exe in (("release", ctx.exe_release), ("relchk", ctx.exe_relchk)):
            ans = ctx.run_all([exe], ops, 20.0)
            decs, meta = [], []
            for (n, k, descr, op), a in zip(self.plan, ans):
                if op.startswith("BUILDSEQ "):
                    a = a.split(" ; ")[-1].strip()      # the frame of the last build of the session
                if a.startswith("ERR") or a in ("PANIC", "BAD-OP", "CRASH", "HANG"):
                    fails += 1
                    self.fail(ctx, op, prof, f"list of {k} elements (capacity {descr[0][1]}) not encoded: {a}")
                    continue
                fr = bytes.fromhex(a)
                if len(fr) - 6 > 1023:
                    fails += 1
                    self.fail(ctx, op, prof, "payload beyond 1023 bytes")
                off = self.count_offset(n)
                kind, cap, bits = descr[0]
                if off is not None:
                    wire = read_bits(fr[3:-3], off, bits)
                    if wire != k:
                        fails += 1
                        self.fail(ctx, op, prof, f"count field on the wire is {wire}, list has {k} elements")
                decs.append("DEC " + a); meta.append((n, k, op, "roundtrip"))
                # patched counts / truncations on the full-length frame
                if k == cap and off is not None:
                    for v in range(cap + 1, 1 << bits):
                        p = write_bits(fr[3:-3], off, bits, v)
                        decs.append("DEC " + hx(mk_frame(p))); meta.append((n, v, op, "count-above-cap"))
                    L = len(fr) - 6
                    cuts = range(2, L) if ctx.tier == "thorough" else sorted(set([2, 3, L - 1, L - 2] + [ctx.rng(op).randrange(2, L) for _ in range(6)]))
                    for c in cuts:
                        if 2 <= c < L:
                            decs.append("DEC " + hx(mk_frame(fr[3:3 + c]))); meta.append((n, c, op, "truncated"))
            dans = ctx.run_all([exe], decs, 20.0)
            patched_total += len(decs)
            for (n, k, op, what), a, d in zip(meta, dans, decs):
                if what == "roundtrip":
                    toks = a.split()
                    cnt = [int(t[1:]) for t in toks if t.startswith("c")]
                    if self.g.list_frags()[n][0][0] == "str":
                        cnt = [0 if t == "b-" else (len(t) - 1) // 2 for t in toks if t.startswith("b")]
                    if not a.startswith(f"MSG {n}") or not cnt or cnt[0] != k:
                        fails += 1
                        self.fail(ctx, op, prof, f"decode of the {k}-element frame gives {a[:80]}")
                elif what == "count-above-cap":
                    if a != "CORRUPT":
                        fails += 1
                        self.fail(ctx, d, prof, f"count {k} above capacity decodes to {a[:60]}")
                else:
                    # a truncated body may still be a complete shorter message only if its count allows; with
                    # a full list every strict truncation must be Corrupt (padding bits of the last byte aside)
                    if a != "CORRUPT" and not self.trunc_ok(n, k, d):
                        fails += 1
                        self.fail(ctx, d, prof, f"body truncated to {k} bytes decodes to {a[:60]}")
        ctx.cov["oracle_failures"] += fails
        ctx.cov["second_round_ops"] = patched_total
        return extra

    def trunc_ok(self, n, cut, dec_op):
        # cutting inside the zero padding of the last byte leaves a complete body only when cut == L,
        # which is excluded; nothing else is acceptable
        return False

    def fail(self, ctx, op, prof, why):
        if len(ctx.violations) < 60:
            ctx.violations.append({"op": op[:3000], "profile": prof, "oracle": "FAIL C15 " + why})

    def count_offset(self, n):
        """static bit offset (in the payload) of the first count field, if everything before it is fixed-width"""
        g = self.g
        f = g.frags[g.mod_of[n]]
        off = 12

        def width(fid):
            return g.dfs[fid]["len"] if fid in g.dfs else None

        if f["macro"] == "msg_len_middle":
            for _, x in f["fields1"]:
                w = width(x)
                if w is None:
                    return None
                off += w
            return off
        if f["macro"] == "msg":
            for _, x in f["fields"]:
                if x in g.dfs:
                    off += g.dfs[x]["len"]
                elif x in g.strs or (x in g.frags and g.frags[x]["macro"] == "frag_vec_with_len"):
                    return off
                else:
                    return None
        return None


def read_bits(buf, off, n):
    v = 0
    for i in range(off, off + n):
        v = (v << 1) | ((buf[i // 8] >> (7 - i % 8)) & 1)
    return v


def write_bits(buf, off, n, v):
    b = bytearray(buf)
    for j in range(n):
        i = off + j
        bit = (v >> (n - 1 - j)) & 1
        b[i // 8] = (b[i // 8] & ~(0x80 >> (i % 8))) | ((0x80 >> (i % 8)) if bit else 0)
    return bytes(b)


@register
class C16(MsgProp):
    id = "C16"

    def rule(self):
        return ("ENC ops on 1059, 1065 and 1230 with recognised, distinct (satellite, signal) keys: 0..=64 (32) "
                "satellites, all recognised signals, entries of one satellite scattered through the list, up to "
                "capacity, more than 31 entries per satellite only through duplicate-free wild inputs; DEC of hostile "
                "frames with maximal counts. Oracle (Python, on the answers of the real code): encode fails with an "
                "error, or the frame decodes to the same multiset of (satellite, signal) with biases on the grid "
                "(re-encode reproduces the frame), grouped by ascending satellite; never more entries than capacity. "
                "Non-trivial = distinct lists with >= 2 satellites or scattered order.")

    def gen(self, ctx):
        g = gen_for(ctx)
        r = ctx.rng("gen")
        self.plan = []
        per = 40 if ctx.tier == "quick" else 500
        for n, fid in ((1059, "df_msg1059_biases"), (1065, "df_msg1065_biases")):
            for i in range(per):
                shape = ["small", "scattered", "allsats", "many-per-sat", "cap", "empty"][i % 6]
                head = g.frag(r, g.mod_of[n], "valid")
                c = [k for k, t in enumerate(head) if t.startswith("c")][0]
                toks = head[:c] + g.bias_list(r, fid, "valid", shape=shape)
                op = "ENC %d %s" % (n, " ".join(toks))
                self.plan.append((n, op))
                yield (op, "bias-" + shape, shape not in ("empty", "small"))
        for n, fid in ((1059, "df_msg1059_biases"), (1065, "df_msg1065_biases")):
            for shape in ["flood", "flood", "over31"] + ["flood%d" % k for k in FLOOD_SIZES]:
                # recognised signals repeating on one satellite: "either an error or every entry comes back"
                # applies to these too (keys compared with their multiplicity)
                op = bias_op(g, r, n, fid, "valid", shape)
                self.plan.append((n, op))
                yield (op, "bias-" + shape.rstrip("0123456789") + "-dups", True)
        # periodic listings (signal by signal), with full and nearly full satellite sets
        for n, fid, full in ((1059, "df_msg1059_biases", 64), (1065, "df_msg1065_biases", 32)):
            if n not in g.numbers:
                continue
            for ns_ in (2, 3, full - 1, full):
                for rows_ in (1, 2, 3, 4, 6):
                    if ns_ * rows_ <= 390:
                        op = bias_op(g, r, n, fid, "valid", "sigmajor:%dx%d" % (ns_, rows_))
                        self.plan.append((n, op))
                        yield (op, "bias-signal-major", True)
        # small scope, exhaustive: every sequence of up to 4 satellite ids (5 in the thorough tier) over an alphabet
        # of boundary satellites -- the grouping logic depends on nothing else
        import itertools
        deep = getattr(ctx, "registered_tier", "quick") == "thorough"
        for n, fid, alpha in ((1059, "df_msg1059_biases", (0, 1, 31, 32, 33, 63)), (1065, "df_msg1065_biases", (0, 1, 15, 16, 30, 31))):
            if n not in g.numbers:
                continue
            for L in range(1, 6 if deep else 5):
                for seq in itertools.product(alpha, repeat=L):
                    op = bias_op(g, r, n, fid, "valid", "seq:" + ",".join(map(str, seq)))
                    self.plan.append((n, op))
                    yield (op, "bias-sequence-small-scope", len(set(seq)) >= 2)
        for i in range(per):
            head = g.frag(r, "msg1230", "valid")
            c = [k for k, t in enumerate(head) if t.startswith("c")][0]
            op = "ENC 1230 %s" % " ".join(head[:c] + g.bias1230(r, "valid"))
            self.plan.append((1230, op))
            yield (op, "bias-1230", True)
        for n in (1059, 1065):
            for (ns, nb) in [(13, 31), (63, 31), (63, 6), (1, 31), (12, 31), (32, 12), (31, 31)]:
                yield ("DEC " + hx(mk_frame(bias_payload(r, n, ns, nb))), "hostile-counts", True)
            for (ns, nb) in [(9, 31), (12, 31), (10, 26), (2, 31)]:
                yield ("DEC " + hx(mk_frame(bias_payload(r, n, ns, nb, same_sat=r.choice([0, 7, 31])))), "hostile-repeated-satellite", True)

    def entries(self, n, toks, with_bias=False):
        import struct
        c = [k for k, t in enumerate(toks) if t.startswith("c")][0]
        cnt = int(toks[c][1:])
        rest = toks[c + 1:]
        step = 2 if n == 1230 else 3
        out = []
        for i in range(cnt):
            e = rest[i * step:(i + 1) * step]
            key = (int(e[0][1:]), e[1]) if n != 1230 else (0, e[0])
            if with_bias:
                b = struct.unpack("<f", struct.pack("<I", int(e[-1][1:], 16)))[0]
                out.append((key, b))
            else:
                out.append(key)
        return out

    def run(self, ctx):
        extra = super().run(ctx)
        if ctx.replay:
            return extra
        fails = 0
        ops = [p[1] for p in self.plan]
        caps = {1059: 390, 1065: 390, 1230: 4}
        for prof, exe in (("release", ctx.exe_release), ("relchk", ctx.exe_relchk)):
            ans = ctx.run_all([exe], ops, 20.0)
            decs, meta = [], []
            for (n, op), a in zip(self.plan, ans):
                if a.startswith("ERR"):
                    continue
                if a in ("PANIC", "BAD-OP", "CRASH", "HANG"):
                    fails += 1; self.fail(ctx, op, prof, a); continue
                decs.append("DEC " + a); meta.append((n, op, a))
            dans = ctx.run_all([exe], decs, 20.0)
            for (n, op, frame), a in zip(meta, dans):
                if not a.startswith(f"MSG {n} "):
                    fails += 1; self.fail(ctx, op, prof, "frame decodes to " + a[:60]); continue
                ein = self.entries(n, op.split()[2:])
                eout = self.entries(n, a.split()[2:])
                if sorted(ein) != sorted(eout):
                    fails += 1
                    self.fail(ctx, op, prof, f"entries in: {len(ein)} out: {len(eout)}; multiset of (satellite, signal) differs")
                elif n != 1230 and [e[0] for e in eout] != sorted(e[0] for e in eout):
                    fails += 1; self.fail(ctx, op, prof, "decoded entries not grouped by ascending satellite")
                if len(eout) > caps[n]:
                    fails += 1; self.fail(ctx, op, prof, "more entries than capacity")
                # the bias of every entry comes back on its grid (distinct keys: match by key)
                bin_ = dict(self.entries(n, op.split()[2:], True))
                bout = dict(self.entries(n, a.split()[2:], True))
                # the field's own range, both ends included (16-bit: -655.36 .. 655.34 m; 14-bit: -81.92 .. 81.91 m)
                step, lo_, hi_ = (0.02, -655.36, 655.34) if n == 1230 else (0.01, -81.92, 81.91)
                if len(bin_) == len(ein):
                    for key, b in bin_.items():
                        if key in bout and b == b and lo_ - step / 4 <= b <= hi_ + step / 4 and abs(bout[key] - b) > step / 2 + 1e-3 * step + abs(b) * 1e-6:
                            fails += 1
                            self.fail(ctx, op, prof, f"bias of entry {key} is {b} and comes back as {bout[key]}")
                            break
        ctx.cov["oracle_failures"] += fails
        return extra

    def fail(self, ctx, op, prof, why):
        if len(ctx.violations) < 60:
            ctx.violations.append({"op": op[:3000], "profile": prof, "oracle": "FAIL C16 " + why})


@register
class C17(MsgProp):
    id = "C17"

    def run(self, ctx):
        extra = super().run(ctx)
        if ctx.replay:
            return extra
        # 1029: more than 127 characters or 255 bytes is refused; otherwise the two count fields on the wire
        # are the character count and the byte count (oracle on the answers of the real code)
        ops = [l.strip() for l in open(os.path.join(ctx.wdir, "ops.txt")) if l.startswith("ENC 1029 ")]
        fails = 0
        # every 1029 frame: invalid UTF-8 in the announced text bytes, or fewer bytes than announced, must give Corrupt;
        # valid text must give the typed message with exactly those bytes
        decs = [l.strip() for l in open(os.path.join(ctx.wdir, "ops.txt")) if l.startswith("DEC ")]
        for prof, exe in (("release", ctx.exe_release), ("relchk", ctx.exe_relchk)):
            dans = ctx.run_all([exe], decs, 20.0)
            for op, a in zip(decs, dans):
                fr = bytes.fromhex(op.split()[1])
                p = fr[3:-3]
                if len(p) < 9 or ((p[0] << 4) | (p[1] >> 4)) != 1029:
                    continue
                nbytes = p[8]
                txt = p[9:9 + nbytes]
                try:
                    txt.decode("utf-8"); valid = len(txt) == nbytes
                except UnicodeDecodeError:
                    valid = False
                if not valid and a != "CORRUPT":
                    fails += 1
                    if len(ctx.violations) < 60:
                        ctx.violations.append({"op": op[:600], "profile": prof, "oracle": "FAIL C17 a 1029 frame whose text is not valid UTF-8 (or is shorter than announced) decodes to " + a[:80]})
                elif valid and not (a.startswith("MSG 1029 ") and a.endswith("b" + (txt.hex() if txt else "-"))):
                    fails += 1
                    if len(ctx.violations) < 60:
                        ctx.violations.append({"op": op[:600], "profile": prof, "oracle": "FAIL C17 a 1029 frame with valid text decodes to " + a[:80]})
        for prof, exe in (("release", ctx.exe_release), ("relchk", ctx.exe_relchk)):
            ans = ctx.run_all([exe], ops, 20.0)
            for op, a in zip(ops, ans):
                tok = op.split()[-1]
                raw = b"" if tok == "b-" else bytes.fromhex(tok[1:])
                try:
                    nchars = len(raw.decode("utf-8"))
                except UnicodeDecodeError:
                    continue
                if nchars > 127 or len(raw) > 255:
                    ok = a.startswith("ERR")
                    why = f"text of {nchars} characters / {len(raw)} bytes was not refused: {a[:40]}"
                else:
                    ok = not a.startswith("ERR") and a not in ("PANIC", "BAD-OP", "CRASH", "HANG")
                    why = f"text of {nchars} characters / {len(raw)} bytes refused: {a[:40]}"
                    if ok:
                        p = bytes.fromhex(a)[3:-3]
                        cc, bc = read_bits(p, 57, 7), read_bits(p, 64, 8)
                        ok = cc == nchars and bc == len(raw) and p[9:9 + len(raw)] == raw
                        why = f"count fields on the wire are {cc} characters / {bc} bytes for a text of {nchars} / {len(raw)}"
                if not ok:
                    fails += 1
                    if len(ctx.violations) < 60:
                        ctx.violations.append({"op": op[:3000], "profile": prof, "oracle": "FAIL C17 " + why})
        ctx.cov["oracle_failures"] += fails
        return extra

    def rule(self):
        return ("STR88591 / ASTR ops (string -> descriptor field / UTF-8 text field) for capacities {7,31,127,255} on "
                "strings of ASCII, Latin-1 high half, NUL, 2/3/4-byte characters straddling the capacity, astral "
                "characters, lengths around the capacity; ENC/DEC ops on 1007, 1008, 1021-1027, 1029, 1033, 1300-1302 "
                "with such text; frames with invalid UTF-8 (overlong, surrogate, truncated sequence) and descriptor "
                "length above capacity. Oracle (harness): first N characters, byte mapping 1..255 / 0xA4, chars() "
                "mapping, longest whole-character prefix, valid UTF-8; message round trip; refusals; Corrupt. "
                "Non-trivial = distinct strings with a non-ASCII character or length >= capacity.")

    def gen(self, ctx):
        g = gen_for(ctx)
        r = ctx.rng("gen")
        pools = [list(range(32, 127)), list(range(128, 256)), [0, 1, 0xA4, 0xFF, 0x100, 0x20AC], [0xE9, 0x7FF, 0x800, 0xFFFF],
                 [0x10000, 0x1F600, 0x10FFFF], [0x41, 0xE9, 0x65E5, 0x1F600, 0]]
        sc = lambda v: 0 <= v < 0x110000 and not (0xD800 <= v <= 0xDFFF)
        dpool = [v for v in g.dict["ints"] if sc(v) and v >= 0x80] or [0xE9]
        npool = [v for v in g.dict.get("new_ints", []) if sc(v)]
        pools.append(dpool)
        if npool:
            pools += [npool, npool + [0x41], npool]
        for N in (7, 31, 127, 255):
            for _ in range(30 if ctx.tier == "quick" else 400):
                pool = r.choice(pools)
                n = r.choice([0, 1, N - 1, N, N + 1, N // 2, N // 3, N // 4 + 1, r.randrange(0, N + 5)])
                s = [r.choice(pool) for _ in range(n)]
                nt = any(c > 127 for c in s) or n >= N // 4
                yield ("STR88591 %d %s" % (N, " ".join(map(str, s))), "str88591", nt)
                yield ("ASTR %d %s" % (N, " ".join(map(str, s))), "astr", nt)
        # every boundary code point (ends of the 1-, 2-, 3- and 4-byte ranges, Latin-1 ends, literals of the
        # sources) at every byte offset around the capacity, behind ASCII and behind multi-byte fill
        edge_cps = [0x7F, 0x80, 0xFF, 0x100, 0x7FF, 0x800, 0xD7FF, 0xE000, 0xFFFD, 0xFFFE, 0xFFFF, 0x10000, 0x10FFFF, 0xA4, 0, 1] + \
            [v for v in g.dict.get("new_ints", []) if sc(v)][:12]
        for N in (7, 31, 127, 255):
            for cp in edge_cps:
                w = len(chr(cp).encode()) if cp else 1
                for back in range(0, 6):
                    for fill in ("a", "\u00e9", "\u65e5"):
                        fw = len(fill.encode())
                        k = (N - back) // fw
                        pad = N - back - k * fw
                        if k < 0 or pad < 0:
                            continue
                        cs = [ord(fill)] * k + [0x61] * pad + [cp] + [0x62, cp]
                        yield ("ASTR %d %s" % (N, " ".join(map(str, cs))), "astr-boundary", True)
                for back in (0, 1, 2):
                    cs = [0x61] * (N - back) + [cp, 0x62]
                    yield ("STR88591 %d %s" % (N, " ".join(map(str, cs))), "str88591-boundary", True)
        for cp in edge_cps:
            if cp == 0:
                continue
            for back in range(0, 6):
                for fill in ("a", "\u00e9", "\u65e5"):
                    fw = len(fill.encode())
                    k = min((255 - back) // fw, 126)
                    txt = fill * k + chr(cp)
                    if len(txt) <= 127 and len(txt.encode()) <= 255:
                        yield ("ENC 1029 i%d i%d i%d b%s" % (r.randrange(4096), r.randrange(65536), r.randrange(86400), hx(txt.encode())), "text-boundary", True)
        yield from string_neighbour_ops(g, r)
        for total in (5, 100, 126, 127, 128, 130):
            for k in (0, 1, total - 2, total - 1):
                cps = [r.choice([0x61, 0xE9, 0x65E5, 0x1F600]) if total < 100 else 0x61 for _ in range(total)]
                yield ("GROW text %d %s" % (k, " ".join(map(str, cps))), "text-grown-in-place", True)
        for n in (1007, 1008, 1021, 1022, 1023, 1024, 1025, 1026, 1027, 1029, 1033, 1300, 1301, 1302):
            if n not in g.numbers:
                continue
            for _ in range((10 if n != 1029 else 40) if ctx.tier == "quick" else 100):
                yield ("ENC " + g.message(r, n, r.choice(["valid", "wild"])), "text-message", True)
        # 1029 with invalid UTF-8 and with counts
        for bad in (b"\xc0\x80", b"\xed\xa0\x80", b"\xe2\x82", b"\xf4\x90\x80\x80", b"\xff", b"ab\x80"):
            body = b"ok" + bad + b"z"
            bits = int_bits(1029, 12) + int_bits(5, 12) + int_bits(1, 16) + int_bits(2, 17) + int_bits(len(body), 7) + int_bits(len(body), 8)
            yield ("DEC " + hx(mk_frame(bits_to_bytes(bits) + body)), "invalid-utf8", True)
        # sequences of invalid fragments (each invalid on its own; a lenient decoder may accept some combinations:
        # CESU-8 surrogate pairs, overlong forms followed by continuations, truncated lead + the missing tail)
        frs = [b"\xed\xa0\xbd", b"\xed\xb8\x80", b"\xed\xaf\xbf", b"\xed\xbf\xbf", b"\xc0\x80", b"\xc1\xbf", b"\xe0\x80\x80",
               b"\xf0\x80\x80\x80", b"\xf4\x90\x80\x80", b"\xe2\x82", b"\xac", b"\xf0\x9f", b"\x98\x80", b"\xff", b"\xfe", b"\x80"]
        for a_ in frs:
            for b_ in frs:
                body = b"ok " + a_ + b_ + b"z"
                bits = int_bits(1029, 12) + int_bits(5, 12) + int_bits(1, 16) + int_bits(2, 17) + int_bits(min(127, len(body)), 7) + int_bits(len(body), 8)
                yield ("DEC " + hx(mk_frame(bits_to_bytes(bits) + body)), "utf8-fragment-pairs", True)
        for txt in ("héllo wörld", "日本語", "a" * 127, "é" * 127, "😀" * 63):
            body = txt.encode()
            bits = int_bits(1029, 12) + int_bits(5, 12) + int_bits(1, 16) + int_bits(2, 17) + int_bits(len(txt), 7) + int_bits(len(body), 8)
            yield ("DEC " + hx(mk_frame(bits_to_bytes(bits) + body)), "valid-utf8-frame", True)
            yield ("DEC " + hx(mk_frame((bits_to_bytes(bits) + body)[:-1])), "truncated-utf8-frame", True)
        # 1029 texts around the 127-character / 255-byte limits, with 1-, 2-, 3- and 4-byte characters
        for chars, ch in ((127, "a"), (128, "a"), (127, "é"), (128, "é"), (85, "日"), (86, "日"), (63, "😀"), (64, "😀")):
            for extra in ("", "a", "😀", "é"):
                txt = (ch * chars + extra).encode()
                if len(txt) <= 255:
                    yield ("ENC 1029 i%d i%d i%d b%s" % (r.randrange(4096), r.randrange(65536), r.randrange(86400), hx(txt)), "text-limits", True)
        # both limits at once: texts with exactly nc characters AND exactly nb bytes around (127, 255), mixed widths
        def text_with(nc, nb, spread):
            if nb < nc or nb > 4 * nc:
                return None
            w = [1] * nc
            extra, i = nb - nc, 0
            while extra > 0:
                add = min(spread, extra, 3)
                w[i % nc] = min(4, w[i % nc] + add)
                extra -= add
                i += 1
            sym = {1: "a", 2: "\u00e9", 3: "\u65e5", 4: "\U0001F600"}
            t = "".join(sym[x] for x in w)
            return t if (len(t) == nc and len(t.encode()) == nb) else None
        for nc in (125, 126, 127, 128):
            for nb in (252, 253, 254, 255, 256):
                for spread in (1, 2, 3):
                    t = text_with(nc, nb, spread)
                    if t is not None and nb <= 255:
                        yield ("ENC 1029 i%d i%d i%d b%s" % (r.randrange(4096), r.randrange(65536), r.randrange(86400), hx(t.encode())), "text-both-limits", True)
        for k in (1, 5, 20, 40):
            txt = ("😀" * k + "a" * (128 - k)).encode()      # 128 characters, some of them astral
            yield ("ENC 1029 i1 i2 i3 b%s" % hx(txt), "text-limits", True)
            txt = ("😀" * k + "a" * (100 - k)).encode()
            yield ("ENC 1029 i1 i2 i3 b%s" % hx(txt), "text-limits", True)
        for fr in nul_descriptor_frames(r):
            yield ("DEC " + hx(fr), "nul-in-descriptor-frame", True)
        # descriptor length above capacity in 1033 (5-bit and 8-bit length prefixes)
        for ln in (32, 33, 100, 255):
            bits = int_bits(1033, 12) + int_bits(7, 12) + int_bits(ln, 8) + [1, 0] * (4 * ln) + [0] * 64
            yield ("DEC " + hx(mk_frame(bits_to_bytes(bits)[:1023])), "descriptor-above-cap", True)
