"""C08, C11: data fields (per-field encode/decode through the verif hooks)."""
import json, os, struct
from fractions import Fraction
from props import Prop, register
from gencommon import *


def load_schema(ctx):
    return json.load(open(os.path.join(ctx.root, "work", "schema.json")))


def patterns(r, L, exhaustive_upto, nrand, repo="/repo", full3=False):
    if L <= exhaustive_upto:
        return list(range(1 << L))
    s = {0, 1, 2, (1 << L) - 1, (1 << L) - 2, 1 << (L - 1), (1 << (L - 1)) - 1, (1 << (L - 1)) + 1}
    for v in dict_ints(0, (1 << L) - 1, repo):
        s.add(v)
        s.add(((1 << L) - v) % (1 << L))      # the same magnitude, negative, in two's complement
    for k in range(L):
        s.add(1 << k)
        s.add(((1 << L) - 1) ^ (1 << k))
    for _ in range(nrand):
        s.add(r.getrandbits(L))
    s.update(structured_patterns(r, L, full3))
    return sorted(s)


def structured_patterns(r, L, full3=False):
    """patterns with few set bits, runs of ones, and their neighbours / complements / negatives: values at
    carry, borrow and word boundaries (k * 2^j for small odd k), where arithmetic done in pieces goes wrong"""
    M = (1 << L) - 1
    base = set()
    for a in range(L):
        for b in range(a):
            base.add((1 << a) | (1 << b))
            base.add((1 << (a + 1)) - (1 << b))          # ones from bit b to bit a
    three = []
    for a in range(L):
        for b in range(a):
            for c in range(b):
                three.append((1 << a) | (1 << b) | (1 << c))
    if not full3 and len(three) > 3000:
        three = r.sample(three, 3000)
    # two runs of ones (a small sample: quadratic in the run ends)
    for _ in range(200 if L > 16 else 0):
        e = sorted(r.sample(range(L + 1), 4))
        base.add(((1 << e[3]) - (1 << e[2])) | ((1 << e[1]) - (1 << e[0])))
    out = set(three)
    for v in base:
        for w in (v, v - 1, v + 1, M ^ v, (M + 1 - v) & M):
            if 0 <= w <= M:
                out.add(w)
    return out


@register
class C08(Prop):
    id = "C08"
    profile_sensitive = True

    def rule(self):
        return ("DFDEC ops for every df! of the regenerated table: all 2^w patterns for w <= 10 (thorough: <= 16), "
                "otherwise 0, all-ones, both sign boundaries, every one-hot and one-cold pattern, every pattern with two set bits, every run of ones, 3-bit patterns (sampled; thorough: all), each with +-1 / complement / negation, literals of the sources, and seeded random "
                "patterns (quick 150, thorough 4000 per field). Oracle on the real code: decode consumes exactly w "
                "bits, decoded value finite, encode(decode(p)) = p except that the sign-magnitude negative zero "
                "re-encodes as 0, exactly the inv pattern decodes to absent. The hand-written numeric fields (bias_m of "
                "1059/1065: all 2^14 steps; of 1230: all 2^16 steps in thorough, a pattern sample in quick) go through "
                "whole-message ENC/DEC/ENC ops: every step is reached, decodes to a distinct value, and "
                "decode-then-encode reproduces the frame. Non-trivial = distinct (field, pattern) "
                "with a pattern other than 0 and all-ones.")

    def trusted(self):
        return ["IEEE-754 binary32/64 round-to-nearest-even as the meaning of f32/f64 arithmetic on the target "
                "(Rtcm/Model/SoftFloat.lean; compared bit-exactly with the hardware on every op counted here)"]

    def gen(self, ctx):
        sch = load_schema(ctx)
        r = ctx.rng("gen")
        thorough = ctx.tier == "thorough"
        for i in sch["df_order"]:
            d = sch["dfs"][i]
            L = d["len"]
            pats = patterns(r, L, 16 if thorough else 10, 4000 if thorough else 150, ctx.repo,
                            full3=getattr(ctx, "registered_tier", ctx.tier) == "thorough")
            if L > 16 and d.get("res") and d["dt"] in ("f32", "f64"):
                # whole units of the physical quantity: multiples of floor / round / ceil of 1/res (a decode shortcut
                # "whole units are exact" is wrong where 1/res is not an integer)
                inv = 1 / eval_expr(d["res"])
                extra = set()
                for U in {int(inv), int(inv) + 1, int(inv + Fraction(1, 2))}:
                    if U < 2:
                        continue
                    kmax = ((1 << L) - 1) // U
                    ks = range(1, kmax + 1) if kmax <= 400 else sorted(set(list(range(1, 101)) + [r.randrange(1, kmax + 1) for _ in range(300)] + [kmax, kmax - 1]))
                    for k in ks:
                        v = k * U
                        if v < (1 << L):
                            extra.update((v, ((1 << L) - v) % (1 << L)))
                pats = sorted(set(pats) | extra)
            for p in pats:
                yield (f"DFDEC {i} {L} {p}", "float" if d["dt"] in ("f32", "f64") else "int",
                       p != 0 and p != (1 << L) - 1)
        # every field written into an all-ones scratch buffer: the absent marker, zero, an end of the range (a field
        # must write every one of its bits, also when the pattern is all zeros)
        for i in sch["df_order"]:
            d = sch["dfs"][i]
            isf = d["dt"] in ("f32", "f64")
            zero = ("f0" if isf else "i%d" % int(eval_expr(d["bias"]) if d["bias"] else 0))
            if isf and d["bias"]:
                zero = "f%x" % f_bits(d["dt"], float(eval_expr(d["bias"])))
            if d["inv"] is not None:
                yield (f"DFENCF {i} N", "absent-into-ones", True)
                yield (f"DFENCF {i} S {zero}", "zero-into-ones", True)
            else:
                yield (f"DFENCF {i} {zero}", "zero-into-ones", True)
        # the hand-written numeric fields (bias_m of 1059 / 1065 / 1230) are not df! rows: whole-message ops
        self._fam = self.bias_family(ctx)
        enc = [op for _, _, op in self._fam]
        for op in enc:
            yield (op, "bias-family-enc", True)
        a1 = ctx.run_all([ctx.exe_release], enc, 20.0)
        dec = ["DEC " + a for a in a1 if a and a[0] in "0123456789abcdef" and " " not in a]
        for op in dec:
            yield (op, "bias-family-dec", True)
        a2 = ctx.run_all([ctx.exe_release], dec, 20.0)
        for a in a2:
            if a.startswith("MSG "):
                yield ("ENC " + a[4:], "bias-family-reenc", True)

    def bias_family(self, ctx):
        """(n, [k], op): ENC ops whose bias lists carry one value per grid step k -- every step of the 14-bit
        fields of 1059 / 1065, every step of the 16-bit field of 1230 in the thorough tier (a pattern sample
        in quick). No knowledge of the wire layout is used: the patterns are reached through the real encoder
        and the oracle counts that all of them were."""
        from msggen import Gen
        g = Gen(ctx.root, ctx.repo)
        r = ctx.rng("biasfam")
        out = []
        for n, res, L, maxsat in ((1059, 0.01, 14, 63), (1065, 0.01, 14, 31), (1230, 0.02, 16, 0)):
            if n not in g.numbers:
                continue
            if n == 1230:
                table = [(1, 67), (1, 80), (2, 67), (2, 80)]
                cap = 4
            else:
                table = [(b, a) for _, b, a in g.s["bias_tables"]["df_msg%d_biases" % n]][:31]
                cap = g.consts["SAT_CAP_1059" if n == 1059 else "SAT_CAP_1065"]
            if L <= 14 or ctx.tier == "thorough":
                ks = list(range(-(1 << (L - 1)), 1 << (L - 1)))
            else:
                ks = sorted(set((p - (1 << L)) if p >> (L - 1) else p for p in patterns(r, L, 10, 300, ctx.repo)))
            slots = [(s, sig) for s in range(maxsat + 1) for sig in table][:cap]
            head = g.frag(r, g.mod_of[n], "valid")
            c = [k for k, t in enumerate(head) if t.startswith("c")][0]
            for i in range(0, len(ks), len(slots)):
                chunk = ks[i:i + len(slots)]
                toks = ["c%d" % len(chunk)]
                for (sat, (b, a)), k in zip(slots, chunk):
                    if n != 1230:
                        toks.append("i%d" % sat)
                    toks += ["g%d:%d" % (b, a), "f%x" % f_bits("f32", to_f32(k * res))]
                out.append((n, chunk, "ENC %d %s" % (n, " ".join(head[:c] + toks))))
        return out

    def run(self, ctx):
        extra = super().run(ctx)
        if ctx.replay:
            return extra
        # decode-then-encode reproduces the frame for every bias pattern; all patterns are reached
        fam = self.bias_family(ctx)
        fails = 0
        for prof, exe in (("release", ctx.exe_release), ("relchk", ctx.exe_relchk)):
            frames = ctx.run_all([exe], [op for _, _, op in fam], 20.0)
            ok = [(n, ks, op, f) for (n, ks, op), f in zip(fam, frames) if f and " " not in f and f[0] in "0123456789abcdef"]
            for (n, ks, op), f in zip(fam, frames):
                if not (f and " " not in f and f[0] in "0123456789abcdef"):
                    fails += 1; self.fail_op(ctx, op, prof, "on-grid bias list refused: " + f[:60])
            decs = ctx.run_all([exe], ["DEC " + f for _, _, _, f in ok], 20.0)
            re_ops, keep = [], []
            seen = {}
            for (n, ks, op, f), d in zip(ok, decs):
                t = d.split()
                vals = [w for w in t[2:] if w.startswith("f")]
                if not d.startswith(f"MSG {n} ") or len(vals) != len(ks):
                    fails += 1; self.fail_op(ctx, op, prof, f"frame decodes to {d[:60]} ({len(vals)} biases for {len(ks)} entries)")
                    continue
                seen.setdefault(n, set()).update(vals)
                re_ops.append("ENC " + d[4:]); keep.append((op, f))
            re = ctx.run_all([exe], re_ops, 20.0)
            for (op, f), f2 in zip(keep, re):
                if f2 != f:
                    fails += 1; self.fail_op(ctx, op, prof, "decode-then-encode does not reproduce the frame")
            for n in seen:
                want = sum(len(ks) for m, ks, _ in fam if m == n)
                if len(seen[n]) != want:
                    fails += 1
                    self.fail_op(ctx, "bias family of %d" % n, prof, f"{want} grid steps decode to only {len(seen[n])} distinct values")
        ctx.cov["oracle_failures"] += fails
        ctx.cov["bias_patterns"] = sum(len(ks) for _, ks, _ in fam)
        return extra

    def fail_op(self, ctx, op, prof, why):
        if len(ctx.violations) < 100:
            ctx.violations.append({"op": op[:4000], "profile": prof, "oracle": "FAIL C08 " + why})


def f_bits(dt, x):
    if dt == "f32":
        return struct.unpack("<I", struct.pack("<f", x))[0]
    return struct.unpack("<Q", struct.pack("<d", x))[0]


def bits_f(dt, b):
    if dt == "f32":
        return struct.unpack("<f", struct.pack("<I", b))[0]
    return struct.unpack("<d", struct.pack("<Q", b))[0]


def eval_expr(e):
    k = e["k"]
    if k == "int":
        return Fraction(e["v"])
    if k == "dec":
        return Fraction(e["m"]) * Fraction(10) ** e["e"]
    if k == "neg":
        return -eval_expr(e["a"])
    if k == "mul":
        return eval_expr(e["a"]) * eval_expr(e["b"])
    return eval_expr(e["a"]) / eval_expr(e["b"])


def to_f32(x):
    try:
        return struct.unpack("<f", struct.pack("<f", x))[0]
    except OverflowError:
        return float("inf") if x > 0 else float("-inf")


@register
class C11(Prop):
    id = "C11"
    profile_sensitive = True
    use_oracle = False

    def rule(self):
        return ("DFENC ops for every scaled float-typed df!: for sampled k over the field's whole range (both ends, "
                "around zero, seeded interior), inputs k*res+bias + {0, +-eps, +-(1/2-eps)res, +-res/2, "
                "+-(1/2+eps)res}; plus NaN, +-inf, -0, out-of-range. Oracle (on answers of the real code, exact "
                "rational arithmetic): the selected pattern's decoded value is the nearest of the three neighbouring "
                "representable values up to the float slack, |decoded - input| <= res/2 + slack, and selection is "
                "monotone over each sorted input group. The hand-written scaled fields (bias_m of 1059/1065: f32, 0.01 m, "
                "14 bits; of 1230: f32, 0.02 m, 16 bits) get the same neighbourhoods through one-entry ENC ops and "
                "the same oracle on the decoded frame. Non-trivial = distinct in-range off-grid inputs.")

    def trusted(self):
        return ["IEEE-754 round-to-nearest-even (SoftFloat model, compared bit-exactly with the hardware)"]

    BIAS_FIELDS = ((1059, Fraction(1, 100), 14), (1065, Fraction(1, 100), 14), (1230, Fraction(2, 100), 16))
    DELTAS = (-(0.5 + 1e-3), -0.5, -(0.5 - 1e-3), -0.25, -1e-3, -1e-6, 0.0, 1e-6, 1e-3, 0.25, 0.5 - 1e-3, 0.5, 0.5 + 1e-3)

    def bias_plan(self, ctx):
        """one-entry bias lists of 1059 / 1065 / 1230 with bias_m in grid neighbourhoods: (n, res, k, [(x, op)])"""
        from msggen import Gen
        g = Gen(ctx.root, ctx.repo)
        r = ctx.rng("bias")
        thorough = ctx.tier == "thorough"
        out = []
        for n, res, L in self.BIAS_FIELDS:
            lo, hi = -(1 << (L - 1)), (1 << (L - 1)) - 1
            ks = {lo, lo + 1, hi, hi - 1, 0, 1, -1, 2, -2, 3, -3, 50, -50, (1 << (L - 2)), -(1 << (L - 2))}
            dd = dict_ints(0, hi, ctx.repo, 12 if not thorough else 80, r) + new_ints(0, hi, ctx.repo)
            ks.update(v for v in dd if lo <= v <= hi)
            ks.update(-v for v in dd if lo <= -v <= hi)
            for _ in range(300 if thorough else 12):
                ks.add(r.randrange(lo, hi + 1))
            head = g.frag(r, g.mod_of[n], "valid")
            c = [k for k, t in enumerate(head) if t.startswith("c")][0]
            if n == 1230:
                ent = ["g1:67"]
            else:
                fid = "df_msg%d_biases" % n
                _, b, a = g.s["bias_tables"][fid][0]
                ent = ["i1", "g%d:%d" % (b, a)]
            for k in sorted(ks):
                xs = sorted(set(to_f32((k + dlt) * float(res)) for dlt in self.DELTAS))
                group = [(x, "ENC %d %s" % (n, " ".join(head[:c] + ["c1"] + ent + ["f%x" % f_bits("f32", x)]))) for x in xs]
                out.append((n, res, L, k, group))
        return out

    def fields(self, sch):
        return [sch["dfs"][i] for i in sch["df_order"] if sch["dfs"][i]["dt"] in ("f32", "f64") and sch["dfs"][i]["res"]]

    def signed_range(self, d):
        L = d["len"]
        if d["kind"] == "u":
            lo, hi = 0, (1 << L) - 1
        elif d["kind"] == "i":
            lo, hi = -(1 << (L - 1)), (1 << (L - 1)) - 1
        else:
            lo, hi = -((1 << (L - 1)) - 1), (1 << (L - 1)) - 1
        return lo, hi

    def inputs(self, ctx):
        sch = load_schema(ctx)
        r = ctx.rng("gen")
        thorough = ctx.tier == "thorough"
        out = []
        for d in self.fields(sch):
            res = float(eval_expr(d["res"]))
            bias = float(eval_expr(d["bias"])) if d["bias"] else 0.0
            lo, hi = self.signed_range(d)
            ks = {lo, lo + 1, hi, hi - 1, 0, 1, -1 if lo < 0 else 2, (lo + hi) // 2}
            dd = dict_ints(0, max(hi, -lo), ctx.repo, 12 if not thorough else 80, r)
            dd = dd + new_ints(0, max(hi, -lo), ctx.repo)
            ks.update(v for v in dd if lo <= v <= hi)
            ks.update(-v for v in dd if lo <= -v <= hi)
            for p2 in range(10, d["len"]):
                for v in ((1 << p2), (1 << p2) + 1, -(1 << p2)):     # powers of two: float precision steps
                    if lo <= v <= hi:
                        ks.add(v)
            # round numbers in mixed bases (2^a * 5^b * m: limbs, decimal / binary block sizes) and multiples of 2^31 / 2^32:
            # boundaries at which arithmetic done in pieces loses a carry
            if d["len"] > 20:
                smooth = []
                a2 = 1
                while a2 <= hi:
                    v = a2
                    while v <= hi:
                        smooth.append(v)
                        v *= 5
                    a2 *= 2
                smooth = [v for v in smooth if v >= (1 << 16)]
                cand = set()
                for v in smooth:
                    for m_ in (1, 2, 3):
                        cand.update((v * m_, -v * m_))
                for m_ in range(1, 64):
                    cand.update((m_ << 31, -(m_ << 31), m_ << 32, -(m_ << 32)))
                cand = sorted(v for v in cand if lo <= v <= hi)
                if len(cand) > (900 if thorough else 450):
                    cand = r.sample(cand, 900 if thorough else 450)
                ks.update(cand)
            for _ in range(40 if thorough else 6):
                ks.add(r.randrange(lo, hi + 1))
            eps = 1e-3
            for k in sorted(ks):
                if k < lo or k > hi:
                    continue
                group = []
                for dlt in (-(0.5 + eps), -0.5, -(0.5 - eps), -eps, 0.0, eps, 0.5 - eps, 0.5, 0.5 + eps):
                    x = (k + dlt) * res + bias
                    if d["dt"] == "f32":
                        x = to_f32(x)
                    group.append(x)
                out.append((d, k, sorted(set(group))))
        return out

    def tok(self, d, x):
        t = f"f{f_bits(d['dt'], x):x}"
        return ("S " + t) if d["inv"] is not None else t

    def gen(self, ctx):
        self._plan = self.inputs(ctx)
        for d, k, group in self._plan:
            for x in group:
                yield (f"DFENC {d['id']} {self.tok(d, x)}", "grid-neighbourhood", True)
        sch = load_schema(ctx)
        for d in self.fields(sch):
            for name, x in (("nan", float("nan")), ("inf", float("inf")), ("-inf", float("-inf")), ("-0", -0.0),
                            ("huge", 1e30), ("-huge", -1e30)):
                yield (f"DFENC {d['id']} {self.tok(d, x)}", "special-" + name, False)
            if d["inv"] is not None:
                yield (f"DFENC {d['id']} N", "absent", False)
        self._bias_plan = self.bias_plan(ctx)
        for n, res, L, k, group in self._bias_plan:
            for x, op in group:
                yield (op, "bias-grid-neighbourhood", True)

    def bias_oracle(self, ctx):
        """nearest-value oracle for the hand-written bias fields, on frames built and decoded by the real code"""
        plan = self.bias_plan(ctx)
        ops = [op for _, _, _, _, group in plan for _, op in group]
        fails = 0
        for prof, exe in (("release", ctx.exe_release), ("relchk", ctx.exe_relchk)):
            ans = ctx.run_all([exe], ops, 10.0)
            decs = ["DEC " + a for a in ans if not (a.startswith("ERR") or a in ("PANIC", "CRASH", "HANG", "BAD-OP"))]
            dans = iter(ctx.run_all([exe], decs, 10.0))
            i = 0
            for n, res, L, k, group in plan:
                lo, hi = -(1 << (L - 1)), (1 << (L - 1)) - 1
                prev = None
                for x, op in group:
                    a = ans[i]; i += 1
                    if a.startswith("ERR") or a in ("PANIC", "CRASH", "HANG", "BAD-OP"):
                        if lo < k < hi:
                            fails += 1; self.fail_op(ctx, op, prof, f"in-range bias answered {a}")
                        prev = None
                        continue
                    d = next(dans)
                    t = d.split()
                    fl = [w for w in t[2:] if w.startswith("f")]
                    if not d.startswith(f"MSG {n} ") or len(fl) != 1:
                        if lo < k < hi:
                            fails += 1; self.fail_op(ctx, op, prof, "frame decodes to " + d[:60])
                        prev = None
                        continue
                    if not (lo < k < hi):
                        prev = None
                        continue
                    out = Fraction(bits_f("f32", int(fl[0][1:], 16)))
                    xv = Fraction(x)
                    slack = (abs(xv) + abs(out)) * Fraction(8, 2 ** 24) + res * Fraction(1, 2 ** 20)
                    err = abs(out - xv)
                    if err > res / 2 + slack:
                        fails += 1
                        self.fail_op(ctx, op, prof, f"bias {x} comes back as {float(out)}: |decoded - input| = {float(err)} > res/2 + slack")
                    if prev is not None and out < prev:
                        fails += 1
                        self.fail_op(ctx, op, prof, f"not monotone: {float(out)} after {float(prev)}")
                    prev = out
        ctx.cov["oracle_failures"] += fails
        ctx.cov["bias_oracle_evaluations"] = len(ops) * 2

    def fail_op(self, ctx, op, prof, why):
        if len(ctx.violations) < 100:
            ctx.violations.append({"op": op, "profile": prof, "oracle": "FAIL " + why})

    def run(self, ctx):
        extra = super().run(ctx)
        if not ctx.replay:
            self.bias_oracle(ctx)
        # property oracle on the answers of the real code
        sch = load_schema(ctx)
        ops, decs = [], []
        plan = self.inputs(ctx) if not ctx.replay else []
        for d, k, group in plan:
            for x in group:
                ops.append(f"DFENC {d['id']} {self.tok(d, x)}")
        if not ops:
            return extra
        fails = 0
        for prof, exe in (("release", ctx.exe_release), ("relchk", ctx.exe_relchk)):
            ans = ctx.run_all([exe], ops, 10.0)
            # second round: decode neighbours of each selected pattern
            q, idx = [], []
            n = 0
            for d, k, group in plan:
                L = d["len"]
                for x in group:
                    a = ans[n]; n += 1
                    if a.startswith("ERR") or a in ("PANIC", "CRASH", "HANG", "BAD-OP"):
                        idx.append(None); continue
                    p = int(a.split()[0])
                    nb = []
                    for dp in (-1, 0, 1):
                        sv = self.signed_of(d, p)
                        if sv is None:
                            nb.append(None); continue
                        pp = self.pattern_of(d, sv + dp)
                        if pp is None:
                            nb.append(None)
                        else:
                            nb.append(len(q)); q.append(f"DFDEC {d['id']} {L} {pp}")
                    idx.append((p, nb))
            dec = ctx.run_all([exe], q, 10.0)
            n = 0
            for d, k, group in plan:
                lo, hi = self.signed_range(d)
                fmtp = 24 if d["dt"] == "f32" else 53
                res = eval_expr(d["res"])
                prev = None
                for x in group:
                    it = idx[n]; a = ans[n]; n += 1
                    in_range = lo < k < hi
                    if it is None:
                        if in_range and not (d["bias"] and a.startswith("ERR OutOfRange") and k <= lo + 1):
                            if a in ("PANIC", "CRASH", "HANG") or in_range and lo + 2 < k < hi - 2:
                                fails += 1
                                self.fail(ctx, d, x, prof, f"in-range input answered {a}")
                        continue
                    p, nb = it
                    vals = []
                    for j in nb:
                        if j is None:
                            vals.append(None); continue
                        t = dec[j].split()
                        ft = [w for w in t if w.startswith("f")]
                        vals.append(Fraction(bits_f(d["dt"], int(ft[0][1:], 16))) if ft else None)
                    if not in_range or vals[1] is None:
                        prev = None
                        continue
                    xv = Fraction(x)
                    slack = (abs(xv) + abs(vals[1]) + (abs(eval_expr(d["bias"])) if d["bias"] else 0)) * Fraction(8, 2 ** fmtp) + res * Fraction(1, 2 ** 20)
                    err = abs(vals[1] - xv)
                    if err > res / 2 + slack:
                        fails += 1
                        self.fail(ctx, d, x, prof, f"|decoded - input| = {float(err)} > res/2 + slack ({float(res / 2 + slack)}), pattern {p}")
                    for v in (vals[0], vals[2]):
                        if v is not None and abs(v - xv) + slack < err:
                            fails += 1
                            self.fail(ctx, d, x, prof, f"neighbour {float(v)} is closer than selected {float(vals[1])}")
                    sv = self.signed_of(d, p)
                    if prev is not None and sv is not None and sv < prev:
                        fails += 1
                        self.fail(ctx, d, x, prof, f"not monotone: selected {sv} after {prev}")
                    prev = sv
        ctx.cov["oracle_failures"] += fails
        ctx.cov["oracle_evaluations"] = len(ops) * 2
        return extra

    def fail(self, ctx, d, x, prof, why):
        if len(ctx.violations) < 100:
            ctx.violations.append({"op": f"DFENC {d['id']} {self.tok(d, x)}", "profile": prof, "oracle": "FAIL " + why})

    def signed_of(self, d, p):
        L = d["len"]
        if d["kind"] == "u":
            return p
        if d["kind"] == "i":
            return p - (1 << L) if p >> (L - 1) else p
        mag = p & ((1 << (L - 1)) - 1)
        return -mag if p >> (L - 1) else mag

    def pattern_of(self, d, sv):
        L = d["len"]
        lo, hi = self.signed_range(d)
        if sv < lo or sv > hi:
            return None
        if d["kind"] == "u":
            return sv
        if d["kind"] == "i":
            return sv % (1 << L)
        return sv if sv >= 0 else ((1 << (L - 1)) | (-sv))
