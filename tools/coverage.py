#!/usr/bin/env python3
"""Coverage audit of the correspondence: which lines of /repo/src are never executed by any
property's op stream (the last streams written to work/Cxx/ops.txt, i.e. of the tier that ran last).

  python3 tools/coverage.py [--props C01,C02] [--out work/coverage]

Builds the harness with `-C instrument-coverage` (nightly toolchain, separate target directory
harness/target-cov), runs every stream in answer mode and in oracle mode, merges the profiles and
reports, per source file of the crate, the executable lines no stream reached.  This is a
measurement of generator quality (DESIGN.md section 12), not a check: it decides nothing.
"""
import argparse, json, os, re, subprocess, sys

ROOT = os.path.dirname(os.path.dirname(os.path.abspath(__file__)))
HARNESS = os.path.join(ROOT, "harness")
REPO = "/repo"


def sh(cmd, **kw):
    return subprocess.run(cmd, stdout=subprocess.PIPE, stderr=subprocess.PIPE, **kw)


def main():
    ap = argparse.ArgumentParser()
    ap.add_argument("--props")
    ap.add_argument("--out", default=os.path.join(ROOT, "work", "coverage"))
    args = ap.parse_args()
    os.makedirs(args.out, exist_ok=True)
    sysroot = sh(["rustc", "+nightly", "--print", "sysroot"]).stdout.decode().strip()
    bins = [os.path.join(dp, "bin") for dp, dn, fn in os.walk(os.path.join(sysroot, "lib", "rustlib")) if "bin" in dn]
    tooldir = next(b for b in bins if os.path.exists(os.path.join(b, "llvm-cov")))
    env = dict(os.environ, CARGO_NET_OFFLINE="true", RUSTFLAGS="-C instrument-coverage --cfg rtcm_rs_verif",
               CARGO_TARGET_DIR=os.path.join(HARNESS, "target-cov"))
    r = sh(["cargo", "+nightly", "build", "--offline", "--release"], cwd=HARNESS, env=env)
    if r.returncode != 0:
        print(r.stderr.decode()[-3000:])
        sys.exit(2)
    exe = os.path.join(HARNESS, "target-cov", "release", "rtcm-verif-harness")
    props = args.props.split(",") if args.props else [f"C{i:02d}" for i in range(1, 21)]
    profs = []
    for p in props:
        ops = os.path.join(ROOT, "work", p, "ops.txt")
        if not os.path.exists(ops):
            continue
        for mode in ([], ["--oracle"]):
            pf = os.path.join(args.out, f"{p}{'-o' if mode else ''}.profraw")
            e = dict(os.environ, LLVM_PROFILE_FILE=pf)
            # one process per 5000 ops so that an aborting op loses little
            lines = open(ops).read().split("\n")
            for i in range(0, len(lines), 5000):
                e["LLVM_PROFILE_FILE"] = pf.replace(".profraw", f"-{i}.profraw")
                subprocess.run([exe] + mode, input=("\n".join(lines[i:i + 5000]) + "\n").encode(), env=e,
                               stdout=subprocess.DEVNULL, stderr=subprocess.DEVNULL)
                profs.append(e["LLVM_PROFILE_FILE"])
        print(p, "done", flush=True)
    profs = [p for p in profs if os.path.exists(p)]
    merged = os.path.join(args.out, "all.profdata")
    r = sh([os.path.join(tooldir, "llvm-profdata"), "merge", "-sparse", "-o", merged] + profs)
    if r.returncode != 0:
        print(r.stderr.decode()[-2000:])
        sys.exit(2)
    for p in profs:
        os.remove(p)
    r = sh([os.path.join(tooldir, "llvm-cov"), "export", "--format=lcov", "--instr-profile", merged, exe,
            "--ignore-filename-regex", r"(\.cargo|rustc|verif/harness)"])
    lcov = r.stdout.decode()
    files, cur = {}, None
    for line in lcov.split("\n"):
        if line.startswith("SF:"):
            cur = files.setdefault(line[3:], {})
        elif line.startswith("DA:") and cur is not None:
            ln, cnt = line[3:].split(",")[:2]
            cur[int(ln)] = max(cur.get(int(ln), 0), int(cnt))
    report = {}
    tot = hit = 0
    for f, d in sorted(files.items()):
        if not f.startswith(REPO + "/src"):
            continue
        miss = sorted(l for l, c in d.items() if c == 0)
        tot += len(d)
        hit += len(d) - len(miss)
        report[os.path.relpath(f, REPO)] = {"lines": len(d), "missed": miss}
    json.dump(report, open(os.path.join(args.out, "report.json"), "w"), indent=1)
    print(f"executable lines {tot}, reached {hit} ({100.0 * hit / max(tot, 1):.1f}%)")
    for f, v in report.items():
        if v["missed"]:
            src = open(os.path.join(REPO, f)).read().split("\n")
            print(f"--- {f}: {len(v['missed'])} of {v['lines']} lines never reached")
            for l in v["missed"][:60]:
                print(f"   {l:5d}: {src[l - 1].rstrip()[:110]}")


if __name__ == "__main__":
    main()
