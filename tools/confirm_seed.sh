#!/bin/bash
# confirm a seeded change in its scratch worktree: usage confirm_seed.sh <ID> [extra RUSTFLAGS] [extra cargo flags]
# 1. with the change: crate compiles, the repository's own tests pass, the demonstration fails
# 2. without the change: the demonstration passes
set -u
ID=$1; W=/tmp/mut/$ID; O=/tmp/mut/$ID.out; lc=$(echo $ID | tr 'A-Z' 'a-z')
export CARGO_NET_OFFLINE=true
export RUSTFLAGS="${2:-}"
CF="${3:-}"
cd $W || exit 2
git diff -- src > $O/patch.confirm.diff
cmp -s $O/patch.confirm.diff $O/patch.diff || echo "NOTE: patch.diff differs from worktree diff (using worktree diff)"
demo=$(ls tests/demo_*.rs | head -1); name=$(basename $demo .rs)
echo "== with change: repository tests (demo excluded)"
mv $demo /tmp/mut/$ID.demo.rs
cargo test --offline $CF 2>&1 | grep -E "^test result|FAILED|error(\[|:)" | sort | uniq -c | tail -5
mv /tmp/mut/$ID.demo.rs $demo
echo "== with change: demo"
cargo test --offline $CF --test $name 2>&1 | grep -E "^test result|error(\[|:)" | tail -3
echo "== without change: demo"
# (no git stash: the stash is shared between worktrees of one repository)
git checkout -q -- src
cargo test --offline $CF --test $name 2>&1 | grep -E "^test result|error(\[|:)" | tail -3
git apply $O/patch.confirm.diff
git status --short | head -5
