#!/bin/bash
# all 20 thorough checks, three at a time (lean and cargo steps are serialised by lock files); writes evidence/
cd "$(dirname "$0")/.."
mkdir -p work
printf "%s\n" C08 C07 C12 C11 C10 C01 C19 C02 C09 C20 C14 C15 C04 C16 C05 C06 C03 C13 C17 C18 | \
  xargs -P 3 -I{} bash -c 's=$(date +%s); python3 tools/check.py --property {} --tier thorough > work/t_{}.out 2> work/t_{}.err; echo "{} rc=$? $(( $(date +%s)-s ))s $(grep -c VIOLATION work/t_{}.out)"' 
