#!/usr/bin/env python3
"""Regression over all stored changes, in parallel: every change of seeded/ (or harmless/) is applied to a
private copy of /repo and the listed checks are run from a private copy of /verif against that copy.

  python3 tools/par_seeded.py [--dir seeded|harmless] [--workers 8] [--only ID,ID] [--all-checks] [--tier quick]

Nothing touches /repo or /verif's build output; the copies live under /tmp/par and are removed at the end.
The results are merged into <dir>/<id>/meta.json (last_run, caught_by).  The registered checks themselves
always run against /repo; this tool only exists because a sequential sweep of ~80 changes takes hours.
"""
import argparse, json, os, shutil, subprocess, sys, time
from concurrent.futures import ThreadPoolExecutor

ROOT = os.path.dirname(os.path.dirname(os.path.abspath(__file__)))
PAR = "/tmp/par/%d" % os.getpid()
ALL = ["C%02d" % i for i in range(1, 21)]


def sh(cmd, **kw):
    return subprocess.run(cmd, stdout=subprocess.PIPE, stderr=subprocess.STDOUT, text=True, **kw)


def prepare(k):
    d = os.path.join(PAR, str(k))
    shutil.rmtree(d, ignore_errors=True)
    os.makedirs(d)
    sh(["rsync", "-a", "--exclude", "/work", "--exclude", "/.git", "--exclude", "/replays", "--exclude", "/harness/target-cov",
        ROOT + "/", d + "/verif/"])
    sh(["rsync", "-a", "--exclude", "/target", "/repo/", d + "/repo/"])
    repo = d + "/repo"
    for f in ("verif/harness/Cargo.toml", "verif/harness/featdrv/Cargo.toml", "verif/tools/translate_rust.py"):
        p = os.path.join(d, f)
        if os.path.exists(p):
            s = open(p).read().replace('path = "/repo"', 'path = "%s"' % repo)
            open(p, "w").write(s)
    return d


def worker(k, jobs, tier, results):
    d = prepare(k)
    repo, verif = d + "/repo", d + "/verif"
    env = dict(os.environ, VERIF_REPO=repo, VERIF_EVIDENCE_DIR=d + "/evidence", CARGO_NET_OFFLINE="true")
    for sdir, sid, checks in jobs:
        r = sh(["git", "-C", repo, "apply", os.path.join(ROOT, sdir, sid, "patch.diff")])
        if r.returncode != 0:
            results[sid] = {"error": "patch does not apply: " + r.stdout[-300:]}
            sh(["git", "-C", repo, "checkout", "--", "."])
            continue
        res = {}
        for p in checks:
            t0 = time.time()
            c = sh([sys.executable, os.path.join(verif, "tools", "check.py"), "--property", p, "--tier", tier], cwd=verif, env=env)
            lines = [l for l in c.stdout.split("\n") if l.startswith("VIOLATION") or l.startswith("KNOWN-FINDING")]
            res[p] = {"rc": c.returncode, "lines": [l.replace(verif, "/verif") for l in lines], "s": round(time.time() - t0, 1)}
            if c.returncode not in (0, 1):
                res[p]["tail"] = c.stdout[-600:]
            for l in lines:
                if "replay=" in l:
                    rp = l.split("replay=")[1].split()[0]
                    if os.path.exists(rp):
                        shutil.copy(rp, os.path.join(ROOT, sdir, sid, f"replay-{p}.json"))
            print(f"[{k}] {sid} / {p}: rc={c.returncode} {lines[:1]}", flush=True)
        sh(["git", "-C", repo, "checkout", "--", "."])
        sh(["git", "-C", repo, "clean", "-fdq", "--", "src", "tests", "testdata"])
        results[sid] = res
    shutil.rmtree(d, ignore_errors=True)


def main():
    ap = argparse.ArgumentParser()
    ap.add_argument("--dir", default="seeded")
    ap.add_argument("--workers", type=int, default=8)
    ap.add_argument("--only")
    ap.add_argument("--all-checks", action="store_true")
    ap.add_argument("--tier", default="quick")
    args = ap.parse_args()
    sdir = args.dir
    ids = sorted(d for d in os.listdir(os.path.join(ROOT, sdir)) if os.path.isdir(os.path.join(ROOT, sdir, d)))
    if args.only:
        ids = [i for i in ids if i in args.only.split(",")]
    jobs = []
    for sid in ids:
        meta = json.load(open(os.path.join(ROOT, sdir, sid, "meta.json")))
        checks = ALL if (args.all_checks or sdir == "harmless") else meta.get("run_checks", [meta["property"]])
        jobs.append((sdir, sid, checks))
    jobs.sort(key=lambda j: -len(j[2]))
    n = max(1, min(args.workers, len(jobs)))
    shares = [jobs[i::n] for i in range(n)]
    results = {}
    with ThreadPoolExecutor(max_workers=n) as ex:
        list(ex.map(lambda k: worker(k, shares[k], args.tier, results), range(n)))
    for sid, res in results.items():
        mp = os.path.join(ROOT, sdir, sid, "meta.json")
        meta = json.load(open(mp))
        if "error" in res:
            meta["last_run"] = res
        else:
            meta["last_run"] = {"tier": args.tier, "results": res}
            meta["caught_by"] = sorted(p for p, v in res.items() if v["rc"] == 1)
        json.dump(meta, open(mp, "w"), indent=1)
    shutil.rmtree(PAR, ignore_errors=True)
    summ = {sid: ({p: v["rc"] for p, v in r.items()} if "error" not in r else r) for sid, r in sorted(results.items())}
    print(json.dumps(summ, indent=1))
    if sdir == "seeded":
        missed = [sid for sid, r in results.items() if "error" in r or r.get(sid.split("-")[0], {}).get("rc") != 1]
        print("not caught by their own property's check:", missed or "none")
    else:
        noisy = [(sid, p) for sid, r in results.items() if "error" not in r for p, v in r.items() if v["rc"] != 0]
        print("alarms on harmless changes:", noisy or "none")


if __name__ == "__main__":
    main()
