#!/usr/bin/env python3
"""Orchestrator: one property per call.

  python3 tools/check.py --property C03 --tier quick|thorough [--replay FILE]

Steps (DESIGN.md §3.2): translate -> prove (lake build + axiom audit) -> build implementation
(two profiles) -> correspondence (model driver vs real code) -> oracle on the real code ->
verdict -> evidence.  Exit 0: property held on everything explored.  Exit 1 with
`VIOLATION property=<id> replay=<path>` otherwise.
"""
import argparse, fcntl, hashlib, json, os, re, subprocess, sys, time

ROOT = os.path.dirname(os.path.dirname(os.path.abspath(__file__)))
LEAN = os.path.join(ROOT, "lean")
HARNESS = os.path.join(ROOT, "harness")
WORK = os.path.join(ROOT, "work")
REPO = os.environ.get("VERIF_REPO", "/repo")
sys.path.insert(0, os.path.join(ROOT, "tools"))

# properties whose larger generator size means many cargo builds: the quick tier keeps the small size
QUICK_SMALL = {"C19"}
ONE_ROUND = {"C19"}          # exhaustive over configurations already
THOROUGH_ROUNDS = 6

ACCEPTED_AXIOMS = {"propext", "Classical.choice", "Quot.sound"}
FORBIDDEN = re.compile(r"\bsorry\b|\badmit\b|^axiom |native_decide|bv_decide|implemented_by|\bunsafe |maxHeartbeats 0")

ENV = dict(os.environ)
ENV.update({"CARGO_NET_OFFLINE": "true", "CARGO_TERM_COLOR": "never"})


def log(*a):
    print("[check]", *a, file=sys.stderr, flush=True)


def run(cmd, cwd=None, inp=None, timeout=None, env=None):
    t0 = time.time()
    p = subprocess.run(cmd, cwd=cwd, input=inp, stdout=subprocess.PIPE, stderr=subprocess.PIPE,
                       env=env or ENV, timeout=timeout)
    return p.returncode, p.stdout, p.stderr, time.time() - t0


class Lock:
    def __init__(self, name):
        os.makedirs(WORK, exist_ok=True)
        self.path = os.path.join(WORK, name + ".lock")

    def __enter__(self):
        self.f = open(self.path, "w")
        fcntl.flock(self.f, fcntl.LOCK_EX)
        return self

    def __exit__(self, *a):
        fcntl.flock(self.f, fcntl.LOCK_UN)
        self.f.close()


# ----------------------------------------------------------------------------- translate
def translate():
    """Regenerate Rtcm/Gen/*.lean and harness/src/gen/*.rs from the current /repo sources.
    Returns (ok, message)."""
    tr = os.path.join(ROOT, "tools", "translate.py")
    if not os.path.exists(tr):
        return True, "no translator yet"
    rc, out, err, dt = run([sys.executable, tr, "--repo", REPO, "--out", ROOT])
    if rc != 0:
        return False, (out + err).decode(errors="replace")[-4000:]
    return True, out.decode(errors="replace").strip()


# ----------------------------------------------------------------------------- lean
def prop_module(prop):
    return f"Rtcm.Props.{prop}"


# system-level theorems (Props/Sys.lean: builder -> stream -> chunked scanner -> decoder) compose the
# theorems of several properties; they are built and audited with the properties they extend
EXTRA_MODULES = {"C01": ["Sys"], "C05": ["Sys"], "C06": ["Sys"], "C12": ["C12Gen"], "C03": ["CrcOnto"], "C04": ["CrcOnto"]}


def prop_theorems(prop):
    """All `theorem` declarations of Props/<prop>.lean (and of the system-level files listed for it) are
    property theorems (helper lemmas live in Proofs/).  Returns (names, number of non-vacuity examples)."""
    names, examples = [], 0
    for mod in [prop] + EXTRA_MODULES.get(prop, []):
        n, e = module_theorems(mod)
        names += n
        examples += e
    return names, examples


def module_theorems(mod):
    path = os.path.join(LEAN, "Rtcm", "Props", mod + ".lean")
    src = open(path).read()
    # strip comments
    src_nc = re.sub(r"/-.*?-/", "", src, flags=re.S)
    src_nc = re.sub(r"--.*", "", src_nc)
    names, stack = [], []
    for line in src_nc.split("\n"):
        m = re.match(r"^namespace\s+(\S+)", line)
        if m:
            stack.append(m.group(1))
            continue
        m = re.match(r"^end\s+(\S+)", line)
        if m and stack and stack[-1] == m.group(1):
            stack.pop()
            continue
        m = re.match(r"^theorem\s+(\S+)", line)
        if m:
            n = m.group(1)
            if n.startswith("_root_."):
                names.append(n[len("_root_."):])
            else:
                names.append(".".join(stack + [n]))
    examples = len(re.findall(r"^example\b", src_nc, flags=re.M))
    return names, examples


def forbidden_scan():
    hits = []
    for dp, dn, fn in os.walk(os.path.join(LEAN, "Rtcm")):
        for f in fn:
            if not f.endswith(".lean"):
                continue
            p = os.path.join(dp, f)
            src = open(p).read()
            src_nc = re.sub(r"/-.*?-/", lambda m: "\n" * m.group(0).count("\n"), src, flags=re.S)
            for i, line in enumerate(src_nc.split("\n"), 1):
                line = re.sub(r"--.*", "", line)
                if FORBIDDEN.search(line):
                    hits.append(f"{os.path.relpath(p, LEAN)}:{i}: {line.strip()[:120]}")
    p = os.path.join(LEAN, "Main.lean")
    if os.path.exists(p) and FORBIDDEN.search(open(p).read()):
        hits.append("Main.lean")
    return hits


def failing_decls(log):
    """map `error: <file>:<line>:` of a lake log to the enclosing theorem/def"""
    out = []
    for m in re.finditer(r"error: (\S+?\.lean):(\d+):(\d+): (.*)", log):
        path, line, msg = m.group(1), int(m.group(2)), m.group(4)
        full = path if os.path.isabs(path) else os.path.join(LEAN, path)
        name = "?"
        try:
            src = open(full).read().split("\n")
            for i in range(min(line, len(src)) - 1, -1, -1):
                mm = re.match(r"^(?:private\s+|protected\s+)?(theorem|lemma|def|example|instance)\s*(\S*)", src[i])
                if mm:
                    name = (mm.group(2) or "example") + f" ({mm.group(1)})"
                    break
        except OSError:
            pass
        out.append({"file": os.path.relpath(full, LEAN), "line": line, "decl": name, "message": msg[:300]})
    return out


def lean_prove(prop, thorough):
    """lake build of the property module and the driver; axiom audit.  Returns dict."""
    res = {"built": False, "log": "", "theorems": [], "axioms": {}, "bad_axioms": {}, "examples": 0,
           "forbidden": [], "leanchecker": None}
    with Lock("lean"):
        mods = [prop_module(prop)] + [prop_module(m) for m in EXTRA_MODULES.get(prop, [])]
        rc, out, err, dt = run(["lake", "build"] + mods + ["driver"], cwd=LEAN, timeout=3600)
        res["build_s"] = round(dt, 1)
        text = (out + err).decode(errors="replace")
        res["log"] = text[-6000:]
        if rc != 0:
            res["failing"] = failing_decls(text)
            # the driver alone may still build: needed for the search
            rc2, o2, e2, _ = run(["lake", "build", "driver"], cwd=LEAN, timeout=3600)
            res["driver_built"] = rc2 == 0
            return res
        res["driver_built"] = True
        res["built"] = True
        names, examples = prop_theorems(prop)
        res["theorems"] = names
        res["examples"] = examples
        audit_dir = os.path.join(LEAN, "Rtcm", "Audit")
        os.makedirs(audit_dir, exist_ok=True)
        audit = os.path.join(audit_dir, prop + ".lean")
        with open(audit, "w") as f:
            for m in mods:
                f.write(f"import {m}\n")
            for n in names:
                f.write(f"#print axioms {n}\n")
        rc, out, err, dt = run(["lake", "env", "lean", audit], cwd=LEAN, timeout=1800)
        text = (out + err).decode(errors="replace")
        if rc != 0:
            res["built"] = False
            res["log"] = text[-4000:]
            return res
        text = re.sub(r"\s+", " ", text)
        for n in names:
            m = re.search(r"'" + re.escape(n) + r"' depends on axioms: \[([^\]]*)\]", text)
            if m:
                ax = [a.strip() for a in m.group(1).split(",") if a.strip()]
            elif re.search(r"'" + re.escape(n) + r"' does not depend on any axioms", text):
                ax = []
            else:
                ax = ["<not reported>"]
            res["axioms"][n] = ax
            bad = [a for a in ax if a not in ACCEPTED_AXIOMS]
            if bad:
                res["bad_axioms"][n] = bad
        res["forbidden"] = forbidden_scan()
        if thorough:
            rc, out, err, dt = run(["lake", "env", "leanchecker"] + mods, cwd=LEAN, timeout=3600)
            res["leanchecker"] = {"rc": rc, "s": round(dt, 1), "out": (out + err).decode(errors="replace")[-500:]}
    return res


# ----------------------------------------------------------------------------- harness
# properties whose streams are also run on a build of the harness in which the crate's `std` feature is off
NOSTD_PROPS = {"C20", "C17"}


def build_harness(prop=None):
    res = {}
    with Lock("cargo"):
        lock = os.path.join(HARNESS, "Cargo.lock")
        if not os.path.exists(lock):
            import shutil
            shutil.copy(os.path.join(REPO, "Cargo.lock"), lock)
        for prof, flag in (("release", ["--release"]), ("relchk", ["--profile", "relchk"])):
            rc, out, err, dt = run(["cargo", "build", "--offline"] + flag, cwd=HARNESS, timeout=3600)
            res[prof] = {"rc": rc, "s": round(dt, 1), "log": err.decode(errors="replace")[-3000:] if rc else ""}
        if prop in NOSTD_PROPS:
            rc, out, err, dt = run(["cargo", "build", "--offline", "--release", "--no-default-features", "--target-dir",
                                    os.path.join(HARNESS, "target-nostd")], cwd=HARNESS, timeout=3600)
            res["nostd"] = {"rc": rc, "s": round(dt, 1), "log": err.decode(errors="replace")[-3000:] if rc else ""}
    return res


def exe(profile):
    return os.path.join(HARNESS, "target", profile, "rtcm-verif-harness")


DRIVER = os.path.join(LEAN, ".lake", "build", "bin", "driver")


def run_lines(cmd, lines, timeout):
    """Feed op lines, get answer lines.  A dead process (abort) is bisected by the caller."""
    inp = ("\n".join(lines) + "\n").encode()
    try:
        p = subprocess.run(cmd, input=inp, stdout=subprocess.PIPE, stderr=subprocess.PIPE, timeout=timeout)
    except subprocess.TimeoutExpired as e:
        out = (e.stdout or b"").decode(errors="replace").split("\n")
        return out[:-1] if out and out[-1] == "" else out, "timeout"
    out = p.stdout.decode(errors="replace").split("\n")
    if out and out[-1] == "":
        out = out[:-1]
    return out, (None if p.returncode == 0 else f"exit {p.returncode}")


def run_chunk(cmd, part, per_op_timeout):
    """answers for one chunk; an op on which the process dies or hangs is answered CRASH/HANG and the
    rest of the chunk is run after it"""
    answers = []
    i = 0
    while i < len(part):
        sub = part[i:]
        # ops that are expensive by design (long sessions, floods) get their own allowance: a loaded machine must not
        # turn them into HANG answers
        heavy = sum(1 for l in sub if l.startswith(("BUILDREP", "XSCAN", "XITER", "BIGSCAN", "BIGFRAME")))
        out, problem = run_lines(cmd, sub, timeout=max(120.0, per_op_timeout * 4 + len(sub) * 0.05 + heavy * 90.0))
        if problem is None and len(out) == len(sub):
            answers.extend(out)
            break
        answers.extend(out[:len(sub)])
        bad = i + len(out)
        if bad < len(part):
            answers.append("HANG" if problem == "timeout" else "CRASH")
        i = bad + 1
    return answers[:len(part)]


def run_all(cmd, lines, per_op_timeout=10.0, chunk=20000, workers=3):
    """Run ops in chunks (a few chunks concurrently)."""
    parts = [lines[i:i + chunk] for i in range(0, len(lines), chunk)]
    if len(parts) <= 1:
        return run_chunk(cmd, lines, per_op_timeout) if lines else []
    from concurrent.futures import ThreadPoolExecutor
    with ThreadPoolExecutor(max_workers=workers) as ex:
        res = list(ex.map(lambda p: run_chunk(cmd, p, per_op_timeout), parts))
    out = []
    for r in res:
        out.extend(r)
    return out


# ----------------------------------------------------------------------------- verdict helpers
def write_json(path, obj):
    os.makedirs(os.path.dirname(path), exist_ok=True)
    tmp = path + ".tmp"
    with open(tmp, "w") as f:
        json.dump(obj, f, indent=1, sort_keys=False)
        f.write("\n")
    os.replace(tmp, path)


def load_known():
    p = os.path.join(ROOT, "known_findings.json")
    if not os.path.exists(p):
        return []
    return json.load(open(p)).get("findings", [])


def main():
    ap = argparse.ArgumentParser()
    ap.add_argument("--property", required=True)
    ap.add_argument("--tier", default=os.environ.get("VERIF_TIER", "quick"))
    ap.add_argument("--replay")
    ap.add_argument("--skip-lean", action="store_true", help="debugging only")
    args = ap.parse_args()
    prop = args.property
    tier = args.tier if args.tier in ("quick", "thorough") else "quick"
    seed = int(os.environ.get("VERIF_SEED", "20260929"))
    t0 = time.time()

    import props
    P = props.get(prop)
    if P is None:
        print(f"unknown property {prop}")
        sys.exit(2)

    os.makedirs(WORK, exist_ok=True)
    wdir = os.path.join(WORK, prop)
    os.makedirs(wdir, exist_ok=True)
    broken = []        # (kind, name, detail): proof obligations / ties that no longer check
    violations = []    # concrete failing inputs on the implementation
    known_hits = []

    # 1. translate
    ok, msg = translate()
    tr_info = msg
    if not ok:
        broken.append(("translator", "tools/translate.py", msg[-1500:]))

    # 2. prove
    lean = {"built": False, "theorems": [], "axioms": {}, "bad_axioms": {}, "examples": 0, "forbidden": [],
            "log": "skipped", "driver_built": os.path.exists(DRIVER)}
    if not args.skip_lean:
        lean = lean_prove(prop, tier == "thorough")
    if not lean["built"] and not args.skip_lean:
        fd = lean.get("failing", [])
        if fd:
            for x in fd[:10]:
                broken.append(("theorem-no-longer-checks", f"{x['file']}:{x['line']} {x['decl']}", x["message"]))
        else:
            broken.append(("lean-build", prop_module(prop), lean["log"][-3000:]))
    for n, bad in lean.get("bad_axioms", {}).items():
        broken.append(("axioms", n, ",".join(bad)))
    for h in lean.get("forbidden", []):
        broken.append(("forbidden-token", h, ""))
    if lean.get("leanchecker") and lean["leanchecker"]["rc"] != 0:
        broken.append(("leanchecker", prop_module(prop), lean["leanchecker"]["out"]))

    # 3. implementation
    hb = build_harness(prop)
    for prof, r in hb.items():
        if r["rc"] != 0:
            broken.append(("harness-build", prof, r["log"][-3000:]))
    impl_ok = all(r["rc"] == 0 for r in hb.values())

    # 4./5. correspondence and oracle
    cov = {"evaluations": 0, "distinct_nontrivial": 0, "model_disagreements": 0, "oracle_failures": 0,
           "panics": 0, "classes": {}, "samples": []}
    extra = {}
    if impl_ok:
        # Depth: the generators know two sizes ("quick", "thorough").  The registered quick tier runs one round
        # at the larger size (except where that means minutes of cargo builds: QUICK_SMALL); the registered
        # thorough tier runs THOROUGH_ROUNDS rounds at the larger size, each with its own seed.
        gen_tier = "quick" if (tier == "quick" and prop in QUICK_SMALL) else "thorough"
        rounds = 1 if tier == "quick" or args.replay or prop in ONE_ROUND else THOROUGH_ROUNDS
        rounds = int(os.environ.get("VERIF_ROUNDS", rounds))
        numeric = ("evaluations", "distinct_nontrivial", "model_disagreements", "oracle_failures")
        for k in range(rounds):
            ctx = props.Ctx(prop=prop, tier=gen_tier, seed=seed + 1000003 * k, wdir=wdir, root=ROOT, repo=REPO,
                            driver=DRIVER if lean.get("driver_built") else None,
                            exe_release=exe("release"), exe_relchk=exe("relchk"),
                            exe_nostd=(os.path.join(HARNESS, "target-nostd", "release", "rtcm-verif-harness") if prop in NOSTD_PROPS else None),
                            run_all=run_all, replay=args.replay, lean_ok=lean["built"], broken=bool(broken),
                            registered_tier=tier, round=k)
            ex = P.run(ctx)   # fills ctx.cov, ctx.violations, ctx.disagreements
            if isinstance(ex, dict):
                extra.update(ex)
            for key, v in ctx.cov.items():
                if key in numeric:
                    cov[key] = cov.get(key, 0) + v
                elif key == "classes":
                    for c, n_ in v.items():
                        cov["classes"][c] = cov["classes"].get(c, 0) + n_
                elif key == "samples":
                    if not cov["samples"]:
                        cov["samples"] = v
                elif isinstance(v, bool):
                    cov[key] = (cov.get(key, v) and v) if key == "exhaustive" else (cov.get(key, False) or v)
                elif isinstance(v, (int, float)) and not isinstance(cov.get(key), (list, dict, str)):
                    cov[key] = cov.get(key, 0) + v
                else:
                    cov[key] = v
            violations.extend(ctx.violations)
            for d in ctx.disagreements:
                if len(broken) < 60:
                    broken.append(("correspondence", d["stream"], json.dumps(d)[:1500]))
            if k + 1 < rounds:
                with open(os.path.join(wdir, "ops.txt")) as f_, open(os.path.join(wdir, "ops-all.txt"), "a" if k else "w") as g_:
                    g_.write(f_.read())
            if violations and k >= 1:
                break       # a failing input is in hand; later rounds add nothing to the verdict
        cov["rounds"] = rounds
        cov["generator_size"] = gen_tier

    # 6. verdict
    known = [k for k in load_known() if k.get("property") == prop and k.get("status") == "finding"]
    new_viol = []
    for v in violations:
        hit = None
        for k in known:
            if k.get("match") and k["match"] in v.get("op", ""):
                hit = k
        if hit:
            known_hits.append((hit, v))
        else:
            new_viol.append(v)
    for k, v in known_hits:
        print(f"KNOWN-FINDING: property={prop} {k.get('what', '')}")

    rc = 0
    os.makedirs(os.path.join(ROOT, "replays"), exist_ok=True)
    if new_viol:
        path = os.path.join(ROOT, "replays", f"{prop}-{seed}-{tier}.json")
        write_json(path, {"property": prop, "kind": "failing-input", "seed": seed, "tier": tier,
                          "failures": new_viol[:50], "broken_obligations": [list(b) for b in broken][:20],
                          "how_to_replay": f"python3 tools/check.py --property {prop} --replay {path}"})
        print(f"VIOLATION property={prop} replay={path}")
        rc = 1
    elif broken:
        path = os.path.join(ROOT, "replays", f"{prop}-{seed}-{tier}-unproved.json")
        write_json(path, {"property": prop, "kind": "obligation-or-tie-broken", "seed": seed, "tier": tier,
                          "no_longer_checks": [{"kind": b[0], "name": b[1], "detail": b[2]} for b in broken][:40],
                          "search": "the property's generators and oracles were run on the implementation at "
                                    "this tier and found no failing input"})
        print(f"VIOLATION property={prop} replay={path} no-failing-input-found")
        rc = 1

    # 7. evidence
    names = lean.get("theorems", [])
    obligations = len(names) + P.extra_obligations()
    discharged = 0
    if lean["built"]:
        discharged = len([n for n in names if n not in lean.get("bad_axioms", {})]) + P.extra_obligations()
    if not names and not lean["built"]:
        try:
            names, _ = prop_theorems(prop)
            obligations = len(names) + P.extra_obligations()
        except Exception:
            pass
    samples = cov.pop("samples", [])
    coverage = {
        "obligations": max(obligations, 1),
        "discharged": discharged,
        "checker_cmd": f"cd lean && lake build {prop_module(prop)} && lake env lean Rtcm/Audit/{prop}.lean"
                       + (f" && lake env leanchecker {prop_module(prop)}" if tier == "thorough" else ""),
        "trusted_base": [
            "Lean 4.33.0 kernel" + (" (re-checked with leanchecker)" if tier == "thorough" else ""),
            "axioms: " + ", ".join(sorted({a for ax in lean.get("axioms", {}).values() for a in ax}) or ["none"]),
            "no native_decide / bv_decide / sorry / own axioms (grep over lean/Rtcm)",
            "tools/translate.py transcribes macro arguments of /repo into Rtcm/Gen (cross-checked by the correspondence)",
            "correspondence check (differential, generator-bounded) ties the hand-written model to the Rust code",
        ] + P.trusted(),
        "theorems": names,
        "axioms_per_theorem": lean.get("axioms", {}),
        "nonvacuity_examples": lean.get("examples", 0),
        "evaluations": cov.get("evaluations", 0),
        "distinct_nontrivial": cov.get("distinct_nontrivial", 0),
        "rule": P.rule(),
        "samples": samples[:12] if samples else [{"obligation": n} for n in names[:5]] or ["none"],
        "model_disagreements": cov.get("model_disagreements", 0),
        "oracle_failures": cov.get("oracle_failures", 0),
        "input_distribution": cov.get("classes", {}),
        "profiles": ["release (optimised)", "relchk (optimised + overflow-checks + debug-assertions)"] +
                    (["nostd (release, crate feature std off)"] if prop in NOSTD_PROPS else []),
        "translator": tr_info[-300:] if isinstance(tr_info, str) else "",
        "lean_build_s": lean.get("build_s"),
        "exhaustive": bool(cov.get("exhaustive", False)),
    }
    for k, v in cov.items():
        if k not in coverage and k not in ("classes",):
            coverage[k] = v
    if isinstance(extra, dict):
        coverage.update(extra)
    ev = {
        "property_id": prop, "tier": tier, "seed": seed, "level": "proof", "coverage": coverage,
        "assumptions": P.assumptions(),
        "wall_s": round(time.time() - t0, 1),
        "violations": len(new_viol) + (1 if (broken and not new_viol) else 0),
        "known_findings_hit": len(known_hits),
    }
    write_json(os.path.join(os.environ.get("VERIF_EVIDENCE_DIR", os.path.join(ROOT, "evidence")), prop + ".json"), ev)
    log(f"{prop} {tier}: obligations {discharged}/{obligations}, evaluations {coverage['evaluations']}, "
        f"nontrivial {coverage['distinct_nontrivial']}, disagreements {coverage['model_disagreements']}, "
        f"oracle failures {coverage['oracle_failures']}, {ev['wall_s']} s, rc={rc}")
    sys.exit(rc)


if __name__ == "__main__":
    main()
