#!/usr/bin/env python3
"""setup_cmd: build the Lean project (model, proofs, driver) and the Rust harness from files on disk."""
import os, subprocess, sys, shutil
ROOT = os.path.dirname(os.path.dirname(os.path.abspath(__file__)))
env = dict(os.environ, CARGO_NET_OFFLINE="true")
def sh(cmd, cwd):
    print("+", " ".join(cmd), flush=True)
    r = subprocess.run(cmd, cwd=cwd, env=env)
    if r.returncode != 0:
        sys.exit(r.returncode)
os.makedirs(os.path.join(ROOT, "work"), exist_ok=True)
tr = os.path.join(ROOT, "tools", "translate.py")
if os.path.exists(tr):
    sh([sys.executable, tr, "--repo", os.environ.get("VERIF_REPO", "/repo"), "--out", ROOT], ROOT)
sh(["lake", "build"], os.path.join(ROOT, "lean"))
lock = os.path.join(ROOT, "harness", "Cargo.lock")
if not os.path.exists(lock):
    shutil.copy("/repo/Cargo.lock", lock)
sh(["cargo", "build", "--offline", "--release"], os.path.join(ROOT, "harness"))
sh(["cargo", "build", "--offline", "--profile", "relchk"], os.path.join(ROOT, "harness"))
sh(["cargo", "build", "--offline", "--release", "--no-default-features", "--target-dir", os.path.join(ROOT, "harness", "target-nostd")],
   os.path.join(ROOT, "harness"))
print("setup ok")
