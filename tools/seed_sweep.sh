#!/bin/bash
# all quick checks on the unchanged tree under several seeds: no check may raise an alarm (run via `vp run`)
python3 tools/setup.py > setup.log 2>&1 || { echo "setup failed"; tail -20 setup.log; exit 2; }
for s in ${SEEDS:-1 2 3}; do
  for p in C01 C02 C03 C04 C05 C06 C07 C08 C09 C10 C11 C12 C13 C14 C15 C16 C17 C18 C19 C20; do
    t0=$(date +%s)
    VERIF_SEED=$s VERIF_EVIDENCE_DIR=$PWD/ev-$s python3 tools/check.py --property $p --tier ${TIER:-quick} > out-$p-$s.txt 2> err-$p-$s.txt
    echo "seed=$s $p rc=$? $(( $(date +%s)-t0 ))s $(grep -c VIOLATION out-$p-$s.txt) $(tail -1 err-$p-$s.txt | cut -c1-160)"
  done
done
