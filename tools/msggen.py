"""Structure-aware generator of message values (token streams) and of hostile payloads, driven by
the translated schema (work/schema.json)."""
import json, math, os, struct
from fractions import Fraction
from gencommon import *

DT_RANGE = {"u8": (0, 255), "u16": (0, 65535), "u32": (0, 2 ** 32 - 1), "u64": (0, 2 ** 64 - 1),
            "i8": (-128, 127), "i16": (-32768, 32767), "i32": (-2 ** 31, 2 ** 31 - 1), "i64": (-2 ** 63, 2 ** 63 - 1),
            "usize": (0, 2 ** 64 - 1)}


def eval_expr(e):
    k = e["k"]
    if k == "int":
        return Fraction(e["v"])
    if k == "dec":
        return Fraction(e["m"]) * Fraction(10) ** e["e"]
    if k == "neg":
        return -eval_expr(e["a"])
    if k == "mul":
        return eval_expr(e["a"]) * eval_expr(e["b"])
    return eval_expr(e["a"]) / eval_expr(e["b"])


def fbits(dt, x):
    if dt == "f32":
        try:
            return struct.unpack("<I", struct.pack("<f", x))[0]
        except OverflowError:
            return 0x7F800000 if x > 0 else 0xFF800000
    return struct.unpack("<Q", struct.pack("<d", x))[0]


def grid_nb(r, res, L):
    """an off-grid real next to a grid point of a signed L-bit field: zero, +-1, the ends, anywhere; distance
    tiny, a quarter, just below / at / just above the half step"""
    lo, hi = -(1 << (L - 1)), (1 << (L - 1)) - 1
    k = r.choice([0, 0, 0, 1, -1, 2, -2, lo + 1, hi - 1, r.randrange(lo + 1, hi), r.randrange(-60, 61)])
    d = r.choice([1e-6, -1e-6, 1e-3, -1e-3, 0.25, -0.25, 0.499, -0.499, 0.5, -0.5, 0.501, -0.501])
    return (k + d) * res


class Gen:
    def __init__(self, root, repo="/repo"):
        self.dict = source_dictionary(repo)
        self.s = json.load(open(os.path.join(root, "work", "schema.json")))
        self.dfs, self.strs, self.frags = self.s["dfs"], self.s["strs"], self.s["frags"]
        self.consts = self.s["consts"]
        self.numbers = [r["number"] for r in self.s["dispatch"]]
        self.mod_of = {r["number"]: r["module"] for r in self.s["dispatch"]}

    # ------------------------------------------------------------------ field ranges
    def signed_range(self, d):
        L = d["len"]
        if d["kind"] == "u":
            return 0, (1 << L) - 1
        if d["kind"] == "i":
            return -(1 << (L - 1)), (1 << (L - 1)) - 1
        return -((1 << (L - 1)) - 1), (1 << (L - 1)) - 1

    def df_value(self, r, d, mode):
        """one token list for a df value; mode in {valid, wild}"""
        dt = d["dt"]
        lo, hi = self.signed_range(d)
        toks = []
        if mode == "corr":
            # correlated fields: every field carries +v or -v (v a number of grid steps), the sign taken from a pattern
            # that singles out one field at a time; relations such as a + b == 0, a == -b, a == b between DIFFERENT fields
            k, signs = self._corr
            sg = signs[self._corr_i % len(signs)]
            self._corr_i += 1
            kk = max(lo, min(hi, sg * k))
            if d["inv"] is not None:
                toks.append("S")
            if dt in ("f32", "f64"):
                res = float(eval_expr(d["res"])) if d["res"] else 1.0
                bias = float(eval_expr(d["bias"])) if d["bias"] else 0.0
                toks.append("f%x" % fbits(dt, kk * res + bias))
            else:
                res_i = int(eval_expr(d["res"])) if d["res"] else 1
                bias_i = int(eval_expr(d["bias"])) if d["bias"] else 0
                toks.append("i%d" % (kk * res_i + bias_i))
            return toks
        if d["inv"] is not None:
            if r.random() < 0.15:
                return ["N"]
            toks.append("S")
        newi = self.dict.get("new_ints", [])
        if mode != "safe" and (r.random() < 0.12 or (newi and r.random() < 0.25)):
            # a number that occurs as a literal somewhere in the crate's sources (or next to one)
            if dt in ("f32", "f64"):
                res = float(eval_expr(d["res"])) if d["res"] else 1.0
                bias = float(eval_expr(d["bias"])) if d["bias"] else 0.0
                v = r.choice(newi if (newi and r.random() < 0.7) else self.dict["ints"]) * r.choice([1, 1, -1])
                x = r.choice([float(v), v * res + bias, (v + r.choice([0.0, 0.45, 0.5, -0.45])) * res + bias,
                              r.choice(self.dict["floats"] or [0.0]) * r.choice([1, -1])])
                if mode == "valid":
                    x = min(max(x, lo * res + bias), hi * res + bias)
                toks.append("f%x" % fbits(dt, x))
            else:
                dlo, dhi = DT_RANGE[dt]
                cand = [v for v in self.dict["ints"] if dlo <= v <= dhi] + [-v for v in self.dict["ints"] if dlo <= -v < 0]
                z = r.choice(cand or [0])
                nc = [v for v in newi if dlo <= v <= dhi] + [-v for v in newi if dlo <= -v < 0]
                if nc and r.random() < 0.7:
                    z = r.choice(nc)
                if mode == "valid":
                    res_i = int(eval_expr(d["res"])) if d["res"] else 1
                    bias_i = int(eval_expr(d["bias"])) if d["bias"] else 0
                    z = min(max(z, lo * res_i + bias_i), hi * res_i + bias_i)
                toks.append("i%d" % z)
            return toks
        if dt in ("f32", "f64"):
            res = float(eval_expr(d["res"])) if d["res"] else 1.0
            bias = float(eval_expr(d["bias"])) if d["bias"] else 0.0
            c = r.random()
            if mode == "wild" and c < 0.12:
                x = r.choice([float("nan"), float("inf"), float("-inf"), -0.0, 1e300, -1e300, 1e-300, 3.4e38, -3.4e38])
            else:
                k = r.choice([lo, hi, 0, 1, -1 if lo < 0 else 1, r.randrange(lo, hi + 1), r.randrange(lo, hi + 1)])
                if mode == "safe":
                    k = max(lo + 1, min(hi - 1, k)) if hi - lo >= 2 else k
                if mode == "wild" and c < 0.25:
                    k = r.choice([lo - 1, hi + 1, hi + 2, lo * 2 - 3, hi * 3, (1 << d["len"]), -(1 << d["len"])])
                frac = r.choice([0.0, 0.0, 0.25, -0.25, 0.49, -0.49, 0.5, -0.5, r.uniform(-0.5, 0.5)])
                if mode == "safe":
                    frac = r.choice([0.0, 0.25, -0.25])
                x = (k + frac) * res + bias
            toks.append("f%x" % fbits(dt, x))
        else:
            dlo, dhi = DT_RANGE[dt]
            res = int(eval_expr(d["res"])) if d["res"] else 1
            bias = int(eval_expr(d["bias"])) if d["bias"] else 0
            vlo, vhi = lo * res + bias, hi * res + bias
            c = r.random()
            if mode == "wild" and c < 0.3:
                z = r.choice([dlo, dhi, vlo - 1, vhi + 1, vhi + res, bias - 1, r.randrange(dlo, dhi + 1)])
            else:
                z = r.choice([vlo, vhi, r.randrange(lo, hi + 1) * res + bias, r.randrange(lo, hi + 1) * res + bias + r.randrange(res)])
            z = max(dlo, min(dhi, z))
            toks.append("i%d" % z)
        return toks

    def str_bytes(self, r, cap, mode, lens=None):
        n = r.choice([0, 1, cap, cap - 1 if cap > 1 else 0, r.randrange(cap + 1)])
        if lens is not None:
            n = min(cap, lens)
        alpha = list(range(32, 127)) * 3 + list(range(128, 256)) + ([0] if mode == "wild" else []) + \
            [v for v in self.dict["ints"] if (1 if mode != "wild" else 0) <= v <= 255]
        return bytes(r.choice(alpha) for _ in range(n))

    def utf8_text(self, r, mode):
        kind = r.randrange(6)
        chars = []
        target_bytes = r.choice([0, 1, 10, 100, 254, 255, 255, r.randrange(256)])
        pool = {0: "abc xyz", 1: "é¤ÿ", 2: "日本語テキスト", 3: "𝄞😀", 4: "aé日😀", 5: "x"}[kind]
        s = ""
        while True:
            ch = r.choice(pool)
            if len((s + ch).encode()) > target_bytes:
                break
            s += ch
            if mode != "wild" and len(s) >= 127:
                break
        if mode == "wild" and r.random() < 0.3:
            s = s[:r.choice([127, 128, 200])] if len(s) > 127 else s + "a" * r.choice([0, 127, 130])
            s = s.encode()[:255].decode(errors="ignore")
        # characters whose code points occur as literals in the sources (new literals first), at the start,
        # at the end or inside
        def scalar(v):
            return 0 < v < 0x110000 and not (0xD800 <= v <= 0xDFFF)
        newc = [v for v in self.dict.get("new_ints", []) if scalar(v) and v >= 0x20]
        allc = [v for v in self.dict["ints"] if scalar(v) and v >= 0x80]
        if (newc and r.random() < 0.6) or (allc and r.random() < 0.25):
            ch = chr(r.choice(newc if (newc and r.random() < 0.8) else (allc or newc)))
            pos = r.choice([0, 0, len(s), r.randrange(len(s) + 1)])
            t = s[:pos] + ch + s[pos:]
            while len(t.encode()) > 255 or (mode != "wild" and len(t) > 127):
                t = t[:pos + 1] + t[pos + 2:] if len(t) > pos + 1 else t[:-1]
            s = t
        return s.encode()

    def sig_pool(self, gnss):
        return [(b, a) for _, b, a in self.s["sig_tables"][gnss]]

    def bad_sig(self, r, gnss=None):
        base = [(1, ord("z")), (19, ord("C")), (0, 0), (255, 0xFF), (2, ord("c")), (1, 0x20AC)]
        if gnss is not None and r.random() < 0.6:
            # an alias of a recognised descriptor: same band, attribute equal after truncation / mask / case fold
            b, a = r.choice(self.sig_pool(gnss))
            rec = set(self.sig_pool(gnss))
            al = [(b, v) for v in alias_chars(a) if (b, v) not in rec]
            if al:
                return r.choice(al)
        return r.choice(base)

    # ------------------------------------------------------------------ fragments
    def frag(self, r, fid, mode, lens=None):
        """token list for fragment fid"""
        if fid in self.dfs:
            return self.df_value(r, self.dfs[fid], mode)
        if fid in self.strs:
            return ["b" + hx(self.str_bytes(r, self.strs[fid]["cap"], mode, lens))]
        if fid == "df_msg1029_utf8_str":
            return ["b" + hx(self.utf8_text(r, mode))]
        if fid in ("df_msg1059_biases", "df_msg1065_biases"):
            return self.bias_list(r, fid, mode, lens)
        if fid == "df_msg1230_biases":
            return self.bias1230(r, mode)
        f = self.frags[fid]
        m = f["macro"]
        if m == "msg":
            out = []
            for n, x in f["fields"]:
                out += self.frag(r, x, mode, lens)
            return out
        if m == "msg_len_middle":
            v = self.frags[f["vec_frag"]]
            n = self.list_len(r, v["cap"], lens)
            out = []
            for _, x in f["fields1"]:
                out += self.frag(r, x, mode, lens)
            out.append("c%d" % n)
            for _, x in f["fields2"]:
                out += self.frag(r, x, mode, lens)
            for _ in range(n):
                out += self.frag(r, v["frag_id"], mode, lens)
            return out
        if m == "frag_vec_with_len":
            n = self.list_len(r, f["cap"], lens)
            out = ["c%d" % n]
            for _ in range(n):
                out += self.frag(r, f["frag_id"], mode, lens)
            return out
        if m == "frag_grid16p":
            out = []
            for _ in range(16):
                out += self.frag(r, f["frag_id"], mode, lens)
            return out
        if m == "msm_data_seg_frag":
            return self.msm(r, f, mode)
        raise KeyError(fid)

    def list_len(self, r, cap, lens):
        if lens is not None:
            return min(cap, lens)
        nl = [v for v in self.dict.get("new_ints", []) if v <= cap]
        if nl and r.random() < 0.4:
            return r.choice(nl)
        if r.random() < 0.2:
            return r.choice([v for v in self.dict["ints"] if v <= cap] or [0])
        return r.choice([0, 1, cap, cap - 1, r.randrange(cap + 1), r.randrange(min(cap, 6) + 1)])

    # ------------------------------------------------------------------ MSM
    def msm_rows(self, r, f, sats, cells, mode):
        sat_f = self.frags[f["sat_id"]]
        sig_f = self.frags[f["sig_id"]]
        out = ["c%d" % len(sats)]
        for s in sats:
            out.append("i%d" % s)
            for _, x in sat_f["fields"]:
                out += self.df_value(r, self.dfs[x], mode)
        out.append("c%d" % len(cells))
        for s, (b, a) in cells:
            out.append("i%d" % s)
            out.append("g%d:%d" % (b, a))
            for _, x in sig_f["fields"]:
                out += self.df_value(r, self.dfs[x], mode)
        return out

    def msm_sets(self, r, gnss, max_cells=64):
        pool = self.sig_pool(gnss)
        ng = r.randrange(1, min(len(pool), 8) + 1)
        if r.random() < 0.2:
            # many distinct signals, up to the whole table (few satellites then)
            ng = r.choice([len(pool), min(len(pool), 17), min(len(pool), 16), r.randrange(1, len(pool) + 1)])
            ng = max(1, min(ng, max_cells))
        ns_max = max(1, min(64, max_cells // ng))
        ns = r.choice([1, ns_max, r.randrange(1, ns_max + 1), r.randrange(1, min(ns_max, 4) + 1)])
        S = r.sample(range(1, 65), ns)
        if r.random() < 0.25:
            cand = [v for v in self.dict["ints"] if 1 <= v <= 64]
            S = r.sample(cand, min(ns, len(cand)))
        ns_new = [v for v in self.dict.get("new_ints", []) if 1 <= v <= 64]
        if ns_new and r.random() < 0.5:
            S = list(dict.fromkeys(r.sample(ns_new, min(len(ns_new), max(1, ns // 2))) + S))[:max(ns, 1)]
        G = r.sample(pool, ng)
        cells = [(s, g) for s in S for g in G if r.random() < 0.6]
        # every satellite and signal used by some cell
        for s in S:
            if not any(c[0] == s for c in cells):
                cells.append((s, r.choice(G)))
        for g in G:
            if not any(c[1] == g for c in cells):
                cells.append((r.choice(S), g))
        cells = list(dict.fromkeys(cells))
        r.shuffle(S)
        r.shuffle(cells)
        return S, G, cells

    def msm(self, r, f, mode, invalid=None):
        gnss = f["gnss"]
        if invalid is None and mode == "wild" and r.random() < 0.35:
            invalid = r.choice(["sat0", "sat65", "cellsat0", "badsig", "dupsat", "dupcell", "mismatch-extra-sat", "mismatch-extra-cell", "mismatch-swap",
                                "cells65", "empty", "only-sats", "only-cells"])
        S, G, cells = self.msm_sets(r, gnss, max_cells=64 if invalid is None else 24)
        if invalid is not None and len(S) > 8:
            S = S[:8]
            cells = [c for c in cells if c[0] in S]
            for s in S:
                if not any(c[0] == s for c in cells):
                    cells.append((s, G[0]))
            G = [g for g in G if any(c[1] == g for c in cells)]
        if invalid == "sat0":
            S[0:1] = [0]
        elif invalid == "sat65":
            S.append(r.choice([65, 200, 255]))
        elif invalid == "cellsat0":
            cells[r.randrange(len(cells))] = (r.choice([0, 65, 255]), cells[0][1])
        elif invalid == "badsig":
            cells[r.randrange(len(cells))] = (cells[0][0], self.bad_sig(r, gnss))
        elif invalid == "dupsat":
            S.append(S[0])
        elif invalid == "dupcell":
            cells.append(cells[r.randrange(len(cells))])
        elif invalid in ("dupcell64", "dupcell63", "dupcell65", "gridx4"):
            # duplicates in lists of (about) 64 rows: a full grid with one cell replaced by a copy of another,
            # or a small grid listed several times
            pool = self.sig_pool(gnss)
            ng = max(d for d in (1, 2, 4, 8, 16, 32) if d <= len(pool))
            ng = min(ng, 8)
            ns = 64 // ng
            S = r.sample(range(1, 65), ns)
            G = r.sample(pool, ng)
            grid = [(s_, g_) for s_ in S for g_ in G]
            if invalid == "gridx4":
                S = S[:max(1, ns // 4)]
                grid = [(s_, g_) for s_ in S for g_ in G] * 4
                cells = grid[:64]
            else:
                k = r.randrange(1, len(grid))
                grid[k] = grid[k - 1]
                cells = grid + ([grid[0]] if invalid == "dupcell65" else [])
                if invalid == "dupcell63":
                    cells = cells[1:] if cells[0] != cells[1] else cells[:-1]
            return self.msm_rows(r, f, S, cells, mode)
        elif invalid == "mismatch-extra-sat":
            extra = [x for x in range(1, 65) if x not in S]
            if extra:
                S.append(r.choice(extra))
        elif invalid == "mismatch-swap":
            # same number of satellites on both sides, different sets: the cells of one listed satellite are
            # moved to a satellite that is not listed
            extra = [x for x in range(1, 65) if x not in S]
            if extra and S:
                old, new = r.choice(S), r.choice(extra)
                cells = [((new if c[0] == old else c[0]), c[1]) for c in cells]
        elif invalid == "mismatch-extra-cell":
            extra = [x for x in range(1, 65) if x not in S]
            if extra:
                cells.append((r.choice(extra), G[0]))
        elif invalid == "cells65":
            pool = self.sig_pool(gnss)
            ng = min(len(pool), r.choice([5, 8, 13, len(pool)]))
            ns = 64 // ng + 1 + r.randrange(3)
            S = r.sample(range(1, 65), min(64, ns))
            G = r.sample(pool, ng)
            cells = [(s, G[i % ng]) for i, s in enumerate(S)] + [(S[0], g) for g in G[1:]]
            cells = list(dict.fromkeys(cells))[:64]
        elif invalid == "empty":
            S, cells = [], []
        elif invalid == "only-sats":
            cells = []
        elif invalid == "only-cells":
            S = []
        S = S[:64]
        cells = cells[:64]
        return self.msm_rows(r, f, S, cells, mode)

    # ------------------------------------------------------------------ bias lists
    def bias_list(self, r, fid, mode, lens=None, shape=None):
        n1059 = "1059" in fid
        cap = self.consts["SAT_CAP_1059" if n1059 else "SAT_CAP_1065"]
        maxsat = 63 if n1059 else 31
        table = [(b, a) for _, b, a in self.s["bias_tables"][fid]]
        shape = shape or r.choice(["small", "small", "scattered", "allsats", "many-per-sat", "cap", "empty"] +
                                  (["unrecognised", "dupkey", "badsat", "over31", "flood", "flood"] if mode == "wild" else []))
        ent = []
        if shape == "empty":
            pass
        elif shape in ("small", "scattered", "unrecognised", "dupkey", "badsat"):
            sats = r.sample(range(maxsat + 1), r.randrange(1, 6))
            for s in sats:
                for g in r.sample(table, r.randrange(1, len(table) + 1)):
                    ent.append((s, g))
            if shape != "small":
                r.shuffle(ent)
            if shape == "unrecognised":
                ent.insert(r.randrange(len(ent) + 1), (sats[0], self.bad_sig(r, "gps" if n1059 else "glo")))
            if shape == "dupkey":
                ent.append(ent[0])
            if shape == "badsat":
                ent.append((maxsat + 1 + r.randrange(100), table[0]))
        elif shape == "allsats":
            nsat = r.choice([maxsat + 1, maxsat, 33 if n1059 else 17])
            for s in range(nsat):
                ent.append((s, r.choice(table)))
        elif shape in ("many-per-sat", "over31"):
            s = r.randrange(maxsat + 1)
            k = r.choice([31, 32, 33, 40]) if shape == "over31" else len(table)
            for i in range(k):
                ent.append((s, table[i % len(table)]))
        elif shape.startswith("flood"):
            # many entries on one satellite (signals repeat): counters wider than the 5-bit field
            s = r.randrange(maxsat + 1)
            k = int(shape[5:]) if shape[5:] else r.choice([255, 256, 257, 300, cap])
            for i in range(k):
                ent.append((s, table[i % len(table)]))
            for j in range(min(cap - k, r.choice([0, 3]))):
                ent.append(((s + 1 + j) % (maxsat + 1), r.choice(table)))
        elif shape.startswith("seq:"):
            # an explicit sequence of satellite ids; signals assigned round-robin per satellite (distinct keys
            # while a satellite has fewer entries than the table has signals)
            per = {}
            for s_ in [int(x) for x in shape[4:].split(",") if x != ""]:
                j = per.get(s_, 0)
                ent.append((s_, table[j % len(table)]))
                per[s_] = j + 1
        elif shape.startswith("sigmajor:"):
            # listed signal by signal: the same ascending run of satellites once per signal ("sigmajor:<nsat>x<rows>")
            ns_, rows_ = [int(x) for x in shape[9:].split("x")]
            for j in range(rows_):
                for s_ in range(ns_):
                    ent.append((s_, table[j % len(table)]))
        elif shape == "latefail":
            # a long body written before the encoder refuses the list: every satellite but the last is fine,
            # the highest-numbered one carries more than 31 entries
            per = min(6, len(table))
            for s_ in range(maxsat - 5 if n1059 else maxsat):
                for g_ in table[:per]:
                    ent.append((s_, g_))
            for i in range(r.choice([32, 33, 40])):
                ent.append((maxsat, table[i % len(table)]))
        elif shape.startswith("capsats"):
            # capacity entries spread round-robin over k satellites (distinct signals inside a satellite)
            k = min(int(shape[7:]), maxsat + 1)
            per = {}
            i = 0
            while len(ent) < cap and i < cap * 4:
                s = i % k
                j = per.get(s, 0)
                if j < len(table):
                    ent.append((s, table[j]))
                    per[s] = j + 1
                i += 1
        elif shape == "cap":
            for s in range(maxsat + 1):
                for g in table:
                    ent.append((s, g))
            ent = ent[:cap]
        ent = ent[:cap]
        out = ["c%d" % len(ent)]
        for s, (b, a) in ent:
            bias = r.choice([0.0, 0.01, -0.01, 81.91, -81.92, 1e9, -1e9, r.uniform(-81.9, 81.9), r.randrange(-8192, 8192) * 0.01,
                             float("nan") if mode == "wild" else 0.5, grid_nb(r, 0.01, 14), grid_nb(r, 0.01, 14)])
            out += ["i%d" % s, "g%d:%d" % (b, a), "f%x" % fbits("f32", bias)]
        return out

    def bias1230(self, r, mode):
        table = [(1, 67), (1, 80), (2, 67), (2, 80)]
        k = r.randrange(0, 5)
        ent = r.sample(table, k)
        if mode == "wild" and r.random() < 0.3 and len(ent) < 4:
            ent.append(self.bad_sig(r))
        r.shuffle(ent)
        out = ["c%d" % len(ent)]
        for b, a in ent:
            bias = r.choice([0.0, 0.02, -0.02, 655.34, -655.36, r.uniform(-655, 655), r.randrange(-32768, 32768) * 0.02, 1e9,
                             grid_nb(r, 0.02, 16), grid_nb(r, 0.02, 16)])
            out += ["g%d:%d" % (b, a), "f%x" % fbits("f32", bias)]
        return out

    # ------------------------------------------------------------------ whole messages
    def message(self, r, number, mode="valid", lens=None):
        return "%d %s" % (number, " ".join(self.frag(r, self.mod_of[number], mode, lens)))

    def correlated(self, r, number, k, signs, lens=1):
        """message whose numeric fields all carry +-k grid steps with the given sign pattern (cyclic)"""
        self._corr, self._corr_i = (k, signs), 0
        return self.message(r, number, "corr", lens)

    # ------------------------------------------------------------------ static sizes (bits)
    def frag_bits(self, fid, n_for_lists):
        """(min_bits_header, list descriptors) -- used for hostile payload construction"""
        raise NotImplementedError

    def list_frags(self):
        """message numbers whose layout has a count-prefixed list or string (excluding MSM / bias structures)"""
        out = {}

        def walk(fid, acc):
            if fid in self.strs:
                acc.append(("str", self.strs[fid]["cap"], self.strs[fid]["len_bits"]))
                return
            if fid == "df_msg1029_utf8_str":
                acc.append(("text", 255, 8)); return
            if fid not in self.frags:
                return
            f = self.frags[fid]
            m = f["macro"]
            if m == "msg":
                for _, x in f["fields"]:
                    walk(x, acc)
            elif m == "msg_len_middle":
                v = self.frags[f["vec_frag"]]
                acc.append(("lenMiddle", v["cap"], self.dfs[f["len_field"]]["len"]))
                for _, x in f["fields1"] + f["fields2"]:
                    walk(x, acc)
                walk(v["frag_id"], acc)
            elif m == "frag_vec_with_len":
                acc.append(("vecWithLen", f["cap"], f["len_bits"]))
                walk(f["frag_id"], acc)
            elif m == "frag_grid16p":
                walk(f["frag_id"], acc)

        for n in self.numbers:
            acc = []
            walk(self.mod_of[n], acc)
            if acc:
                out[n] = acc
        return out


def hostile_payload(r, number, L, style):
    p = bytearray(L)
    if style == "ones":
        p = bytearray([255] * L)
    elif style == "random":
        p = bytearray(rand_bytes(r, L))
    elif style == "sparse":
        for _ in range(max(1, L // 8)):
            p[r.randrange(L)] = r.getrandbits(8)
    if L >= 2:
        p[0] = number >> 4
        p[1] = ((number & 15) << 4) | (p[1] & 15)
    return bytes(p)
