#!/usr/bin/env python3
"""Records the numeric literals of the unchanged /repo sources (tools/baseline_literals.json). Checks give
literals that are NOT in this set priority in every generator role (see gencommon.source_dictionary)."""
import json, os, sys
sys.path.insert(0, os.path.dirname(os.path.abspath(__file__)))
import gencommon
p = os.path.join(os.path.dirname(os.path.abspath(__file__)), "baseline_literals.json")
if os.path.exists(p):
    os.remove(p)
d = gencommon.source_dictionary(sys.argv[1] if len(sys.argv) > 1 else "/repo")
json.dump({"raw_ints": d["raw_ints"], "floats": d["floats"]}, open(p, "w"))
print("baseline literals:", len(d["raw_ints"]), "ints,", len(d["floats"]), "floats")
