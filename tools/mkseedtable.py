#!/usr/bin/env python3
"""Rewrites the table of DESIGN.md §11 from seeded/*/meta.json (last run of tools/run_seeded.py)."""
import json, os, re
ROOT = os.path.dirname(os.path.dirname(os.path.abspath(__file__)))
rows = []
for sid in sorted(os.listdir(os.path.join(ROOT, "seeded"))):
    mp = os.path.join(ROOT, "seeded", sid, "meta.json")
    if not os.path.exists(mp):
        continue
    m = json.load(open(mp))
    res = m.get("last_run", {}).get("results", {})
    caught, quiet = [], []
    for p, v in res.items():
        if v["rc"] == 1:
            nfi = any("no-failing-input-found" in l for l in v["lines"])
            caught.append(p + (" (nfi)" if nfi else ""))
        else:
            quiet.append(p)
    rows.append("| %s | %s | %s | %s | %s |" % (sid, m["what"].replace("|", "\\|"), m.get("needs_to_manifest", "").replace("|", "\\|"),
                                               ", ".join(caught) or "**none**", ", ".join(quiet) or "–"))
hdr = "| Seed | What it does | Needs | Caught by (quick) | Not reported by (other checks that were also run) |\n|---|---|---|---|---|\n"
p = os.path.join(ROOT, "DESIGN.md")
s = open(p).read()
i = s.index(hdr)
j = s.index("\n\n", i)
s = s[:i] + hdr + "\n".join(rows) + s[j:]
open(p, "w").write(s)
print(len(rows), "rows")
