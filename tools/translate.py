#!/usr/bin/env python3
"""Translator: /repo sources -> schema (JSON) -> Lean tables (lean/Rtcm/Gen/*.lean) and Rust
harness code (harness/src/gen/*.rs).

It transcribes the *arguments* of the crate's declarative macros (df!, df_88591_string_with_len!,
msg!, msg_len_middle!, frag_vec!, frag_vec_with_len!, frag_grid16p!, msm_*_frag!, msm_mappings!,
sig_mappings!, message!, include_msg!), the capacity constants, the cfg(any(..)) gates, the
`use super::..` dependencies and Cargo.toml's feature lists.  The macro *bodies* are modelled by
hand in lean/Rtcm/Model and tied by the correspondence check.

Whitespace / comment insensitive.  Exits non-zero if the sources no longer fit the grammar.
"""
import argparse, json, os, re, sys
from fractions import Fraction


class TranslateError(Exception):
    pass


def strip_comments(src):
    out = []
    i, n = 0, len(src)
    while i < n:
        c = src[i]
        if src.startswith("//", i):
            j = src.find("\n", i)
            i = n if j < 0 else j
        elif src.startswith("/*", i):
            depth, i = 1, i + 2
            while i < n and depth:
                if src.startswith("/*", i):
                    depth += 1; i += 2
                elif src.startswith("*/", i):
                    depth -= 1; i += 2
                else:
                    i += 1
        elif c == '"':
            j = i + 1
            while j < n and src[j] != '"':
                j += 2 if src[j] == "\\" else 1
            out.append(src[i:j + 1]); i = j + 1
        elif c == "'" and i + 2 < n and (src[i + 2] == "'" or (src[i + 1] == "\\" and src.find("'", i + 2) > 0 and src.find("'", i + 2) - i <= 8)):
            j = src.find("'", i + 2) if src[i + 1] == "\\" else i + 2
            out.append(src[i:j + 1]); i = j + 1
        else:
            out.append(c); i += 1
    return "".join(out)


OPEN = {"(": ")", "[": "]", "{": "}"}


def balanced(src, i):
    """src[i] is an opening bracket; return index of the matching closer"""
    stack = [OPEN[src[i]]]
    j = i + 1
    while stack:
        if j >= len(src):
            raise TranslateError("unbalanced brackets")
        c = src[j]
        if c == '"':
            j += 1
            while j < len(src) and src[j] != '"':
                j += 2 if src[j] == "\\" else 1
            j += 1
            continue
        if c in OPEN:
            stack.append(OPEN[c])
        elif c in ")]}":
            if c != stack.pop():
                raise TranslateError("mismatched brackets")
        elif c == "'" and j + 2 < len(src) and src[j + 2] == "'":
            j += 2
        j += 1
    return j - 1


def invocations(src, names):
    """yield (macro name, body text) for top-level-ish `name!(...)` / `name![...]` invocations,
    skipping `macro_rules! name {` definitions (and everything inside them)."""
    res = []
    i = 0
    pat = re.compile(r"\b(macro_rules!\s*\w+\s*|(" + "|".join(names) + r")\s*!\s*)([\(\[\{])")
    while True:
        m = pat.search(src, i)
        if not m:
            break
        op = m.end() - 1
        cl = balanced(src, op)
        if m.group(2):
            res.append((m.group(2), src[op + 1:cl]))
        i = cl + 1
    return res


def split_top(s, sep=","):
    parts, depth, cur = [], 0, []
    i = 0
    while i < len(s):
        c = s[i]
        if c == "'" and i + 2 < len(s) and s[i + 2] == "'":
            cur.append(s[i:i + 3]); i += 3; continue
        if c in OPEN:
            depth += 1
        elif c in ")]}":
            depth -= 1
        if c == sep and depth == 0:
            parts.append("".join(cur)); cur = []
        else:
            cur.append(c)
        i += 1
    if "".join(cur).strip():
        parts.append("".join(cur))
    return [p.strip() for p in parts]


def kv_args(body):
    d = {}
    for p in split_top(body):
        if not p:
            continue
        m = re.match(r"^(\w+)\s*:\s*(.*)$", p, flags=re.S)
        if not m:
            raise TranslateError(f"not a `key: value` argument: {p[:60]!r}")
        if m.group(1) in d:
            raise TranslateError(f"duplicate key {m.group(1)}")
        d[m.group(1)] = m.group(2).strip()
    return d


# ---------------------------------------------------------------------------- expressions
# numeric literals as Rust writes them: hex/binary/octal integers, decimal integers, floats with optional
# fraction digits / exponent, optional type suffix (`u8`, `i64`, `f32`, `_f64`, `usize` ...)
SUF = r"(?:_?(?:[ui](?:8|16|32|64|128|size)|f32|f64))?"
TOK = re.compile(r"\s*(?:(0x[0-9a-fA-F_]+|0b[01_]+|0o[0-7_]+)" + SUF + r"|(\d[\d_]*\.(?:\d[\d_]*)?(?:[eE][+-]?\d+)?|\d[\d_]*[eE][+-]?\d+)" + SUF +
                 r"|(\d[\d_]*)(_?f32|_?f64)|(\d[\d_]*)" + SUF + r"|([-+*/()]))")


def parse_expr(s):
    toks = []
    i = 0
    s = s.strip()
    while i < len(s):
        m = TOK.match(s, i)
        if not m:
            raise TranslateError(f"cannot tokenise expression {s!r} at {i}")
        if m.group(1):
            t = m.group(1).replace("_", "")
            toks.append(("int", int(t[2:], {"x": 16, "b": 2, "o": 8}[t[1]])))
        elif m.group(2):
            t = m.group(2).replace("_", "")
            if t.endswith("."):
                t += "0"
            t = t.replace(".e", ".0e").replace(".E", ".0E")
            toks.append(("dec", t))
        elif m.group(3):
            toks.append(("dec", m.group(3).replace("_", "") + ".0"))      # `4f64`: a float literal
        elif m.group(5):
            toks.append(("int", int(m.group(5).replace("_", ""))))
        else:
            toks.append(("op", m.group(6)))
        i = m.end()
    pos = [0]

    def peek():
        return toks[pos[0]] if pos[0] < len(toks) else None

    def eat():
        t = toks[pos[0]]; pos[0] += 1; return t

    def atom():
        t = eat()
        if t == ("op", "("):
            e = addsub()
            if eat() != ("op", ")"):
                raise TranslateError("expected )")
            return e
        if t == ("op", "-"):
            return {"k": "neg", "a": atom()}
        if t[0] == "int":
            return {"k": "int", "v": t[1]}
        if t[0] == "dec":
            txt = t[1]
            m = re.match(r"^(\d+)(?:\.(\d+))?(?:[eE]([+-]?\d+))?$", txt)
            ip, fp, ex = m.group(1), m.group(2) or "", int(m.group(3) or 0)
            return {"k": "dec", "m": int(ip + fp), "e": ex - len(fp), "text": txt}
        raise TranslateError(f"unexpected token {t}")

    def muldiv():
        e = atom()
        while peek() in (("op", "*"), ("op", "/")):
            o = eat()[1]
            e = {"k": "mul" if o == "*" else "div", "a": e, "b": atom()}
        return e

    def addsub():
        e = muldiv()
        if peek() in (("op", "+"), ("op", "-")):
            raise TranslateError("+/- in res/bias expressions is outside the translated grammar")
        return e

    e = addsub()
    if pos[0] != len(toks):
        raise TranslateError(f"trailing tokens in {s!r}")
    return e


def int_of_expr(e):
    if e["k"] == "int":
        return e["v"]
    if e["k"] == "neg":
        return -int_of_expr(e["a"])
    raise TranslateError("integer literal expected")


CARRIER = {"U8": ("u", 8), "U16": ("u", 16), "U32": ("u", 32), "U64": ("u", 64),
           "I8": ("i", 8), "I16": ("i", 16), "I32": ("i", 32), "I64": ("i", 64),
           "SM8": ("sm", 8), "SM16": ("sm", 16), "SM32": ("sm", 32), "SM64": ("sm", 64)}
DTS = {"u8", "u16", "u32", "u64", "i8", "i16", "i32", "i64", "usize", "f32", "f64"}


def read(repo, rel):
    with open(os.path.join(repo, rel)) as f:
        return strip_comments(f.read())


def parse_dfs(repo, consts):
    src = read(repo, "src/df/dfs.rs")
    dfs, strs = {}, {}
    order = []
    for name, body in invocations(src, ["df", "df_88591_string_with_len"]):
        a = kv_args(body)
        if name == "df":
            allowed = {"id", "dt", "it", "len", "res", "bias", "round", "cap", "inv", "ord"}
            if set(a) - allowed:
                raise TranslateError(f"df!: unknown keys {set(a) - allowed}")
            if a["dt"] not in DTS:
                raise TranslateError(f"df! {a['id']}: unknown dt {a['dt']}")
            if a["it"] not in CARRIER:
                raise TranslateError(f"df! {a['id']}: unknown it {a['it']}")
            if ("inv" in a) == ("ord" in a):
                raise TranslateError(f"df! {a['id']}: exactly one of inv/ord expected")
            d = {"id": a["id"], "dt": a["dt"], "it": a["it"], "kind": CARRIER[a["it"]][0], "w": CARRIER[a["it"]][1],
                 "len": int_of_expr(parse_expr(a["len"])), "res": parse_expr(a["res"]) if "res" in a else None,
                 "bias": parse_expr(a["bias"]) if "bias" in a else None,
                 "round": None if "round" not in a else {"true": True, "false": False}[a["round"]],
                 "inv": int_of_expr(parse_expr(a["inv"])) if "inv" in a else None,
                 "cap": None}
            if "cap" in a:
                if a["cap"] not in consts:
                    raise TranslateError(f"df! {a['id']}: unknown capacity {a['cap']}")
                d["cap"] = consts[a["cap"]]; d["cap_name"] = a["cap"]
            if a["id"] in dfs:
                raise TranslateError(f"duplicate df id {a['id']}")
            dfs[a["id"]] = d
            order.append(a["id"])
        else:
            strs[a["id"]] = {"id": a["id"], "cap": consts[a["cap"]], "cap_name": a["cap"], "len_bits": int_of_expr(parse_expr(a["len_bits"]))}
    mods = re.findall(r"pub\s+mod\s+(\w+)\s*;", src)
    # feature gates of the hand-written df modules and their `use super::…` dependencies
    df_gates = {}
    for m in re.finditer(r"((?:#\[cfg\([^\]]*\)\]\s*)*)pub\s+mod\s+(\w+)\s*;", src):
        feats = re.findall(r'feature\s*=\s*"(\w+)"', m.group(1))
        if feats:
            df_gates[m.group(2)] = feats
    df_uses = {}
    ddir = os.path.join(repo, "src/df/dfs")
    if os.path.isdir(ddir):
        for fn in sorted(os.listdir(ddir)):
            if fn.endswith(".rs"):
                fsrc = strip_comments(open(os.path.join(ddir, fn)).read())
                deps = re.findall(r"use\s+super::(\w+)::", fsrc) + re.findall(r"use\s+crate::df::dfs::(df_msg\w+)::", fsrc)
                df_uses[fn[:-3]] = sorted(set(deps))
    return dfs, order, strs, mods, df_gates, df_uses


def fields_list(s):
    s = s.strip()
    if not (s.startswith("[") and s.endswith("]")):
        raise TranslateError("field list expected")
    out = []
    for p in split_top(s[1:-1]):
        p = p.strip()
        if not (p.startswith("(") and p.endswith(")")):
            raise TranslateError(f"field tuple expected: {p!r}")
        q = split_top(p[1:-1])
        if len(q) != 2:
            raise TranslateError(f"(name, frag) expected: {p!r}")
        out.append([q[0], q[1]])
    return out


def parse_msgs(repo, consts):
    frags = {}
    uses = {}
    mdir = os.path.join(repo, "src/msg")
    names = ["msg", "msg_len_middle", "frag_vec", "frag_vec_with_len", "frag_grid16p",
             "msm_data_seg_frag", "msm_sat_frag", "msm_sig_frag"]
    files = sorted(f for f in os.listdir(mdir) if re.match(r"^(msg\d+|msm\w+_sat)\.rs$", f))
    for fn in files:
        src = read(repo, "src/msg/" + fn)
        mod = fn[:-3]
        uses[mod] = re.findall(r"use\s+super::(\w+)::\*\s*;", src)
        for name, body in invocations(src, names):
            body = body.rstrip().rstrip(",")
            # `vec_field: name, frag,` has two comma-separated values
            if name == "msg_len_middle":
                m = re.search(r"vec_field\s*:\s*(\w+)\s*,\s*(\w+)\s*,?\s*$", body)
                if not m:
                    raise TranslateError(f"{fn}: msg_len_middle without vec_field")
                vec_name, vec_frag = m.group(1), m.group(2)
                a = kv_args(body[:m.start()])
                f = {"macro": name, "id": a["id"], "type_name": a["type_name"], "fields1": fields_list(a["fields1"]),
                     "len_field": a["len_field"], "fields2": fields_list(a["fields2"]),
                     "vec_name": vec_name, "vec_frag": vec_frag}
            else:
                a = kv_args(body)
                f = {"macro": name, "id": a["id"]}
                if name == "msg":
                    f.update(type_name=a["type_name"], fields=fields_list(a["fields"]))
                elif name == "frag_vec":
                    f.update(frag_id=a["frag_id"], cap=consts[a["cap_name"]], cap_name=a["cap_name"])
                elif name == "frag_vec_with_len":
                    f.update(frag_id=a["frag_id"], cap=consts[a["cap"]], cap_name=a["cap"], len_bits=int_of_expr(parse_expr(a["len_bits"])))
                elif name == "frag_grid16p":
                    f.update(frag_id=a["frag_id"])
                elif name == "msm_data_seg_frag":
                    f.update(type_name=a["type_name"], gnss=a["gnss"], sat_id=a["sat_id"], sig_id=a["sig_id"])
                elif name == "msm_sat_frag":
                    f.update(type_name=a["type_name"], fields=fields_list(a["fields"]))
                elif name == "msm_sig_frag":
                    f.update(type_name=a["type_name"], gnss=a["gnss"], fields=fields_list(a["fields"]))
            f["file"] = mod
            if f["id"] in frags:
                raise TranslateError(f"duplicate fragment id {f['id']}")
            frags[f["id"]] = f
    return frags, uses


def parse_mod(repo):
    src = read(repo, "src/msg/mod.rs")
    consts = {m.group(1): int_of_expr(parse_expr(m.group(2)))
              for m in re.finditer(r"pub\s+const\s+(\w+)\s*:\s*usize\s*=\s*([0-9][0-9a-zA-Z_]*)\s*;", src)}
    gates = {}
    for m in re.finditer(r"#\[cfg\(any\((.*?)\)\)\]\s*mod\s+(\w+)\s*;", src, flags=re.S):
        gates[m.group(2)] = re.findall(r'feature\s*=\s*"(\w+)"', m.group(1))
    includes = [(m.group(1), m.group(2)) for m in re.finditer(r'include_msg!\s*\(\s*(\w+)\s*,\s*"(\w+)"\s*\)', src)]
    return consts, gates, includes


def parse_sig_tables(repo):
    src = read(repo, "src/msg/msm_mappings.rs")
    tables = {}
    for name, body in invocations(src, ["msm_mappings"]):
        a = kv_args(body)
        rows = []
        inner = a["mappings"].strip()
        for p in split_top(inner[1:-1]):
            m = re.match(r"^(\d+)\s*=>\s*(\d+)\s*\|\s*'(.)'$", p.strip())
            if not m:
                raise TranslateError(f"msm_mappings row {p!r}")
            rows.append([int(m.group(1)), int(m.group(2)), ord(m.group(3))])
        tables[a["gnss"]] = rows
    return tables


def parse_bias_tables(repo):
    out = {}
    for name in ("df_msg1059_biases", "df_msg1065_biases"):
        src = read(repo, f"src/df/dfs/{name}.rs")
        inv = invocations(src, ["sig_mappings"])
        if len(inv) != 1:
            raise TranslateError(f"{name}: expected one sig_mappings! invocation")
        rows = []
        for p in split_top(inv[0][1]):
            m = re.match(r"^(\d+)\s*=>\s*(\d+)\s*\|\s*'(.)'$", p.strip())
            if not m:
                raise TranslateError(f"sig_mappings row {p!r}")
            rows.append([int(m.group(1)), int(m.group(2)), ord(m.group(3))])
        out[name] = rows
    return out


def parse_dispatch(repo):
    src = read(repo, "src/msg/message.rs")
    inv = invocations(src, ["message"])
    if len(inv) != 1:
        raise TranslateError("message.rs: expected one message! invocation")
    rows = []
    for p in split_top(inv[0][1]):
        m = re.match(r'^"(\w+)"\s*:\s*(\w+)\s*\(\s*(\w+)\s*\)\s*=\s*([0-9][0-9a-zA-Z_]*)$', p.strip())
        if not m:
            raise TranslateError(f"message! row {p!r}")
        rows.append({"feature": m.group(1), "variant": m.group(2), "module": m.group(3),
                     "number": int_of_expr(parse_expr(m.group(4)))})
    return rows


def parse_cargo(repo):
    src = open(os.path.join(repo, "Cargo.toml")).read()
    m = re.search(r"^\[features\]\s*$(.*?)(^\[|\Z)", src, flags=re.S | re.M)
    if not m:
        raise TranslateError("Cargo.toml: no [features]")
    feats = {}
    body = re.sub(r"#.*", "", m.group(1))
    for fm in re.finditer(r"^\s*([\w-]+)\s*=\s*\[(.*?)\]", body, flags=re.S | re.M):
        feats[fm.group(1)] = re.findall(r'"([^"]+)"', fm.group(2))
    return feats


def feature_closure(feats, sel):
    """features enabled by selecting `sel` (Cargo: a feature enables the features it lists, transitively)"""
    out, todo = [], list(sel)
    while todo:
        f = todo.pop(0)
        if f in out:
            continue
        out.append(f)
        todo += [x for x in feats.get(f, []) if x in feats]
    return out


def msg_features(feats):
    """the message-type features: what `all_msgs` enables, minus group features (features that enable others)"""
    return [f for f in feature_closure(feats, ["all_msgs"]) if feats.get(f) == []]


def std_paths(repo):
    """syntactic scan for `std::` paths outside `#[cfg(feature = "std")]` items"""
    hits = []
    for dp, dn, fn in os.walk(os.path.join(repo, "src")):
        for f in fn:
            if f.endswith(".rs"):
                src = strip_comments(open(os.path.join(dp, f)).read())
                lines = src.split("\n")
                for i, line in enumerate(lines):
                    if re.search(r"\bstd::", line):
                        prev = " ".join(lines[max(0, i - 2):i])
                        gated = re.search(r'cfg\(feature\s*=\s*"std"\)', prev + line) is not None
                        hits.append({"file": os.path.relpath(os.path.join(dp, f), repo), "line": i + 1, "gated": gated})
    return hits


def build_schema(repo):
    consts, gates, includes = parse_mod(repo)
    dfs, df_order, strs, df_mods, df_gates, df_uses = parse_dfs(repo, consts)
    frags, uses = parse_msgs(repo, consts)
    schema = {
        "consts": consts, "gates": gates, "includes": includes, "dfs": dfs, "df_order": df_order, "strs": strs,
        "df_mods": df_mods, "frags": frags, "uses": uses, "sig_tables": parse_sig_tables(repo),
        "bias_tables": parse_bias_tables(repo), "dispatch": parse_dispatch(repo), "features": parse_cargo(repo),
        "std_paths": std_paths(repo),
    }
    schema["msg_features"] = msg_features(schema["features"])
    # resolve fragment references
    special = {"df_msg1029_utf8_str", "df_msg1059_biases", "df_msg1065_biases", "df_msg1230_biases"}
    for s in special:
        if s not in df_mods:
            raise TranslateError(f"dfs.rs no longer declares module {s}")

    def known(fid):
        return fid in dfs or fid in strs or fid in frags or fid in special

    for f in frags.values():
        refs = []
        for key in ("fields", "fields1", "fields2"):
            refs += [x[1] for x in f.get(key, [])]
        for key in ("frag_id", "len_field", "vec_frag", "sat_id", "sig_id"):
            if key in f:
                refs.append(f[key])
        for r in refs:
            if not known(r):
                raise TranslateError(f"fragment {f['id']} refers to unknown id {r}")
        f["refs"] = sorted(set(refs))
    for row in schema["dispatch"]:
        if row["module"] not in frags:
            raise TranslateError(f"message! row refers to unknown module {row['module']}")
    # module graph for C19: gates and uses of the hand-written df modules, and the dependence of every message
    # module on the hand-written df modules its layout refers to
    for m, g in df_gates.items():
        schema["gates"].setdefault(m, g)
    for m, u in df_uses.items():
        schema["uses"][m] = sorted(set(schema["uses"].get(m, []) + u))
    for f in frags.values():
        for r in f["refs"]:
            if r in special:
                schema["uses"].setdefault(f["file"], [])
                if r not in schema["uses"][f["file"]]:
                    schema["uses"][f["file"]].append(r)
    return schema


# ---------------------------------------------------------------------------- Lean emission
def lean_str(s):
    return '"' + s.replace("\\", "\\\\").replace('"', '\\"') + '"'


def lean_int(z):
    return f"({z})" if z < 0 else str(z)


def lean_expr(e):
    if e is None:
        return "none"
    return "(some " + lean_expr1(e) + ")"


def lean_expr1(e):
    k = e["k"]
    if k == "int":
        return f"(.int {e['v']})"
    if k == "dec":
        return f"(.dec {e['m']} {lean_int(e['e'])})"
    if k == "neg":
        return f"(.neg {lean_expr1(e['a'])})"
    return f"(.{k} {lean_expr1(e['a'])} {lean_expr1(e['b'])})"


def emit_lean(schema, out):
    gen = os.path.join(out, "lean", "Rtcm", "Gen")
    os.makedirs(gen, exist_ok=True)
    hdr = "-- GENERATED by tools/translate.py from /repo sources. Do not edit.\n"

    # DfTable
    L = [hdr, "import Rtcm.Model.Schema", "namespace Rtcm.Gen", "open Rtcm Rtcm.Bits Rtcm.Schema", ""]
    for i in schema["df_order"]:
        d = schema["dfs"][i]
        rnd = "none" if d["round"] is None else f"(some {'true' if d['round'] else 'false'})"
        L.append(f"def df_{i} : DfSpec := {{ id := {lean_str(i)}, dt := .{d['dt']}, it := ⟨.{d['kind']}, {d['w']}⟩, "
                 f"len := {d['len']}, res := {lean_expr(d['res'])}, bias := {lean_expr(d['bias'])}, round := {rnd}, "
                 f"inv := {'none' if d['inv'] is None else '(some ' + lean_int(d['inv']) + ')'}, "
                 f"cap := {'none' if d['cap'] is None else '(some ' + str(d['cap']) + ')'} }}")
    L.append("")
    L.append("def dfTable : List DfSpec := [" + ", ".join("df_" + i for i in schema["df_order"]) + "]")
    L.append("")
    L.append("end Rtcm.Gen")
    write_if_changed(os.path.join(gen, "DfTable.lean"), "\n".join(L) + "\n")

    # SigTables
    L = [hdr, "import Rtcm.Model.Schema", "namespace Rtcm.Gen", "open Rtcm Rtcm.Schema", ""]
    for g, rows in schema["sig_tables"].items():
        L.append(f"def sigTable_{g} : SigTable := [" + ", ".join(f"({n}, {b}, {a})" for n, b, a in rows) + "]")
    for g, rows in schema["bias_tables"].items():
        L.append(f"def biasTable_{g} : SigTable := [" + ", ".join(f"({n}, {b}, {a})" for n, b, a in rows) + "]")
    L.append("")
    L.append("def sigTables : List (String × SigTable) := [" +
             ", ".join(f"({lean_str(g)}, sigTable_{g})" for g in schema["sig_tables"]) + "]")
    L.append("")
    L.append("end Rtcm.Gen")
    write_if_changed(os.path.join(gen, "SigTables.lean"), "\n".join(L) + "\n")

    # Schema (fragments), in dependency order
    frags = schema["frags"]
    done, order = set(), []

    def visit(fid):
        if fid in done or fid not in frags:
            return
        done.add(fid)
        for r in frags[fid]["refs"]:
            visit(r)
        order.append(fid)

    for fid in sorted(frags):
        visit(fid)

    def ref(fid):
        if fid in schema["dfs"]:
            return f"(.df df_{fid})"
        if fid in schema["strs"]:
            s = schema["strs"][fid]
            return f"(.str {s['cap']} {s['len_bits']})"
        if fid == "df_msg1029_utf8_str":
            return ".text1029"
        if fid == "df_msg1059_biases":
            return f"(.bias1059 {schema['consts']['SAT_CAP_1059']} biasTable_df_msg1059_biases)"
        if fid == "df_msg1065_biases":
            return f"(.bias1065 {schema['consts']['SAT_CAP_1065']} biasTable_df_msg1065_biases)"
        if fid == "df_msg1230_biases":
            return ".bias1230"
        return f"frag_{fid}"

    def fields(fl):
        s = ".nil"
        for n, fid in reversed(fl):
            s = f"(.cons {lean_str(n)} {ref(fid)} {s})"
        return s

    def dflist(fl):
        return "[" + ", ".join(f"({lean_str(n)}, df_{fid})" for n, fid in fl) + "]"

    L = [hdr, "import Rtcm.Gen.DfTable", "import Rtcm.Gen.SigTables", "namespace Rtcm.Gen",
         "open Rtcm Rtcm.Bits Rtcm.Schema", ""]
    for fid in order:
        f = frags[fid]
        m = f["macro"]
        if m == "msg":
            body = f".seq {fields(f['fields'])}"
        elif m == "msg_len_middle":
            v = frags[f["vec_frag"]]
            if v["macro"] != "frag_vec":
                raise TranslateError(f"{fid}: vec_field is not a frag_vec!")
            body = (f".lenMiddle {fields(f['fields1'])} df_{f['len_field']} {fields(f['fields2'])} "
                    f"{ref(v['frag_id'])} {v['cap']}")
        elif m == "frag_vec":
            continue   # only used through msg_len_middle!
        elif m == "frag_vec_with_len":
            body = f".vecWithLen {ref(f['frag_id'])} {f['cap']} {f['len_bits']}"
        elif m == "frag_grid16p":
            body = f".grid16 {ref(f['frag_id'])}"
        elif m == "msm_data_seg_frag":
            sat, sig = frags[f["sat_id"]], frags[f["sig_id"]]
            if sig["gnss"] != f["gnss"]:
                raise TranslateError(f"{fid}: gnss of data segment and signal fragment differ")
            body = f".msm sigTable_{f['gnss']} {dflist(sat['fields'])} {dflist(sig['fields'])}"
        elif m in ("msm_sat_frag", "msm_sig_frag"):
            continue   # only used through msm_data_seg_frag!
        L.append(f"def frag_{fid} : Frag := {body}")
    L.append("")
    # frag_vec must only be referenced from msg_len_middle, sat/sig frags only from data segments
    for f in frags.values():
        for key in ("fields", "fields1", "fields2"):
            for n, r in f.get(key, []):
                if r in frags and frags[r]["macro"] in ("frag_vec", "msm_sat_frag", "msm_sig_frag") and f["macro"] == "msg":
                    raise TranslateError(f"{f['id']}: field {n} uses {r} outside the translated combinators")
    L.append("end Rtcm.Gen")
    write_if_changed(os.path.join(gen, "Schema.lean"), "\n".join(L) + "\n")

    # Messages (dispatch) and features
    L = [hdr, "import Rtcm.Gen.Schema", "namespace Rtcm.Gen", "open Rtcm Rtcm.Schema", ""]
    L.append("def messageTable : List MsgRow := [")
    rows = []
    for r in schema["dispatch"]:
        rows.append(f"  {{ feature := {lean_str(r['feature'])}, variant := {lean_str(r['variant'])}, "
                    f"module := {lean_str(r['module'])}, number := {r['number']}, frag := frag_{r['module']} }}")
    L.append(",\n".join(rows))
    L.append("]")
    L.append("")
    L.append("end Rtcm.Gen")
    write_if_changed(os.path.join(gen, "Messages.lean"), "\n".join(L) + "\n")

    L = [hdr, "import Rtcm.Model.Features", "namespace Rtcm.Gen", "open Rtcm Rtcm.Features", ""]
    feats = schema["features"]
    L.append("def cargoFeatures : List (String × List String) := [" +
             ", ".join(f"({lean_str(k)}, [" + ", ".join(lean_str(x) for x in v) + "])" for k, v in feats.items()) + "]")
    L.append("def includeMsgs : List (String × String) := [" +
             ", ".join(f"({lean_str(a)}, {lean_str(b)})" for a, b in schema["includes"]) + "]")
    L.append("def moduleGates : List (String × List String) := [" +
             ", ".join(f"({lean_str(k)}, [" + ", ".join(lean_str(x) for x in v) + "])" for k, v in schema["gates"].items()) + "]")
    L.append("def moduleUses : List (String × List String) := [" +
             ", ".join(f"({lean_str(k)}, [" + ", ".join(lean_str(x) for x in v) + "])" for k, v in sorted(schema["uses"].items())) + "]")
    L.append("def dispatchRows : List (String × String × String × Nat) := [" +
             ", ".join(f"({lean_str(r['feature'])}, {lean_str(r['variant'])}, {lean_str(r['module'])}, {r['number']})"
                       for r in schema["dispatch"]) + "]")
    L.append("def ungatedStdPaths : Nat := " + str(sum(1 for h in schema["std_paths"] if not h["gated"])))
    L.append("")
    L.append("end Rtcm.Gen")
    write_if_changed(os.path.join(gen, "Features.lean"), "\n".join(L) + "\n")


def write_if_changed(path, text):
    if os.path.exists(path) and open(path).read() == text:
        return False
    os.makedirs(os.path.dirname(path), exist_ok=True)
    with open(path, "w") as f:
        f.write(text)
    return True


def main():
    ap = argparse.ArgumentParser()
    ap.add_argument("--repo", default="/repo")
    ap.add_argument("--out", default=os.path.dirname(os.path.dirname(os.path.abspath(__file__))))
    ap.add_argument("--no-rust", action="store_true")
    args = ap.parse_args()
    try:
        schema = build_schema(args.repo)
        os.makedirs(os.path.join(args.out, "work"), exist_ok=True)
        write_if_changed(os.path.join(args.out, "work", "schema.json"), json.dumps(schema, indent=1, sort_keys=True))
        emit_lean(schema, args.out)
        if not args.no_rust:
            import translate_rust
            translate_rust.emit_rust(schema, args.out)
            translate_rust.emit_featdrv(schema, args.out)
    except TranslateError as e:
        print(f"TRANSLATE-ERROR: {e}")
        sys.exit(3)
    except (KeyError, ValueError, IndexError, AttributeError, OSError) as e:
        print(f"TRANSLATE-ERROR: sources outside the translated grammar: {type(e).__name__}: {e}")
        sys.exit(3)
    print(f"translated: {len(schema['dfs'])} df!, {len(schema['strs'])} string dfs, {len(schema['frags'])} fragments, "
          f"{len(schema['dispatch'])} messages, {len(schema['sig_tables'])} signal tables, "
          f"{len(schema['features'])} cargo features")


if __name__ == "__main__":
    main()
