#!/usr/bin/env python3
"""Writes corpus/*.txt: regression ops for the repaired defects D1-D6 (run first by every check)."""
import os, random, struct, sys
ROOT = os.path.dirname(os.path.dirname(os.path.abspath(__file__)))
sys.path.insert(0, os.path.join(ROOT, "tools"))
from msggen import Gen, fbits
from gencommon import *

g = Gen(ROOT)
r = random.Random(7)


def msg1020(**over):
    f = g.frags["msg1020"]
    toks = []
    for name, fid in f["fields"]:
        d = g.dfs[fid]
        if name in over:
            v = over[name]
            t = ("f%x" % fbits(d["dt"], v)) if d["dt"] in ("f32", "f64") else "i%d" % v
            toks += (["S", t] if d["inv"] is not None else [t])
        else:
            toks += g.df_value(r, d, "safe")
    return "ENC 1020 " + " ".join(toks)


os.makedirs(os.path.join(ROOT, "corpus"), exist_ok=True)
with open(os.path.join(ROOT, "corpus", "C09.txt"), "w") as f:
    f.write("# D3: sign-magnitude i32::MIN negation / negative zero; D4: i8 bias subtraction overflow\n")
    f.write(msg1020(tau_c_s=-1e10) + "\n")
    f.write(msg1020(xn_second_deriv_km_s2=16 * 2.0 ** -30) + "\n")
    f.write(msg1020(xn_second_deriv_km_s2=-16 * 2.0 ** -30) + "\n")
    f.write(msg1020(glo_satellite_freq_chan_number=127) + "\n")
    f.write(msg1020(glo_satellite_freq_chan_number=-8) + "\n")
with open(os.path.join(ROOT, "corpus", "C01.txt"), "w") as f:
    f.write("# D3: sign-magnitude values congruent to 2^(len-1): frame must be reproduced\n")
    for v in (16, -16, 48, 1e30, -1e30):
        f.write(msg1020(xn_second_deriv_km_s2=v * 2.0 ** -30) + "\n")
with open(os.path.join(ROOT, "corpus", "C13.txt"), "w") as f:
    f.write("# D1: L=0 / L=1 frames followed by bytes\n")
    f.write("FRAME d3000047ea4b01020304\nFRAME " + hx(mk_frame(b"\x3e") + b"\xd0\x02\x03\x04") + "\n")
    f.write("SCAN d3000047ea4b01020304\n")
with open(os.path.join(ROOT, "corpus", "C14.txt"), "w") as f:
    f.write("# D1 at message level: short frames with a suffix stay Empty\nDEC d3000047ea4b01020304\n")
print("corpus written")
