#!/usr/bin/env python3
"""Apply each seeded change under /verif/seeded/<id>/patch.diff to /repo, run the named checks,
undo the change, and record what each check reported.

  python3 tools/run_seeded.py [--only ID] [--tier quick] [--props C05,C06]

Never commits anything to /repo; always restores the working tree (git checkout -- .).
"""
import argparse, json, os, subprocess, sys, time

ROOT = os.path.dirname(os.path.dirname(os.path.abspath(__file__)))
REPO = "/repo"


def sh(cmd, **kw):
    return subprocess.run(cmd, stdout=subprocess.PIPE, stderr=subprocess.STDOUT, text=True, **kw)


def main():
    ap = argparse.ArgumentParser()
    ap.add_argument("--only")
    ap.add_argument("--tier", default="quick")
    ap.add_argument("--props")
    ap.add_argument("--dir", default="seeded", help="seeded (breaking changes) or harmless (behaviour-preserving changes: no check may raise an alarm)")
    args = ap.parse_args()
    sdir = os.path.join(ROOT, args.dir)
    ids = sorted(d for d in os.listdir(sdir) if os.path.isdir(os.path.join(sdir, d)))
    if args.only:
        ids = [i for i in ids if i == args.only]
    st = sh(["git", "-C", REPO, "status", "--porcelain", "--untracked-files=no"]).stdout.strip()
    if st:
        print("refusing: /repo has local changes:\n" + st)
        sys.exit(2)
    summary = {}
    for sid in ids:
        d = os.path.join(sdir, sid)
        meta = json.load(open(os.path.join(d, "meta.json")))
        props = args.props.split(",") if args.props else meta.get("run_checks", [meta["property"]])
        r = sh(["git", "-C", REPO, "apply", os.path.join(d, "patch.diff")])
        if r.returncode != 0:
            print(f"{sid}: patch does not apply: {r.stdout}")
            summary[sid] = {"error": "patch does not apply"}
            continue
        res = {}
        try:
            for p in props:
                t0 = time.time()
                env = dict(os.environ, VERIF_EVIDENCE_DIR=os.path.join(ROOT, "work", "seeded-evidence"))
                c = sh([sys.executable, os.path.join(ROOT, "tools", "check.py"), "--property", p, "--tier", args.tier], cwd=ROOT, env=env)
                lines = [l for l in c.stdout.split("\n") if l.startswith("VIOLATION") or l.startswith("KNOWN-FINDING")]
                res[p] = {"rc": c.returncode, "lines": lines, "s": round(time.time() - t0, 1)}
                # keep the replay next to the seed so that it documents what the check reported
                for l in lines:
                    if "replay=" in l:
                        rp = l.split("replay=")[1].split()[0]
                        if os.path.exists(rp):
                            import shutil
                            shutil.copy(rp, os.path.join(d, f"replay-{p}.json"))
                print(f"{sid} / {p}: rc={c.returncode} {lines[:1]}", flush=True)
        finally:
            sh(["git", "-C", REPO, "checkout", "--", "."])
            # files a change added (git apply leaves them untracked)
            sh(["git", "-C", REPO, "clean", "-fdq", "--", "src", "tests", "testdata"])
        summary[sid] = res
        meta["last_run"] = {"tier": args.tier, "results": res}
        meta["caught_by"] = sorted(p for p, v in res.items() if v["rc"] == 1)
        json.dump(meta, open(os.path.join(d, "meta.json"), "w"), indent=1)
    # leave the generated files in the state of the unchanged tree
    sh([sys.executable, os.path.join(ROOT, "tools", "translate.py")], cwd=ROOT)
    print(json.dumps({k: {p: v.get("rc") for p, v in r.items()} if "error" not in r else r for k, r in summary.items()}, indent=1))


if __name__ == "__main__":
    main()
