"""Shared generator helpers (Python side): CRC-24Q, frames, hostile byte streams."""


def crc24q(data):
    crc = 0
    for b in data:
        crc ^= b << 16
        for _ in range(8):
            crc <<= 1
            if crc & 0x1000000:
                crc ^= 0x1864CFB
    return crc & 0xFFFFFF


def crc24_variant(data, init, poly):
    crc = init
    for b in data:
        crc ^= b << 16
        for _ in range(8):
            crc <<= 1
            if crc & 0x1000000:
                crc ^= 0x1000000 | poly
    return crc & 0xFFFFFF


def mk_frame(payload, resv=0):
    L = len(payload)
    assert L <= 1023
    body = bytes([0xD3, ((resv & 63) << 2) | (L >> 8), L & 0xFF]) + bytes(payload)
    c = crc24q(body)
    return body + bytes([c >> 16, (c >> 8) & 0xFF, c & 0xFF])


def hx(b):
    return bytes(b).hex() if len(b) else "-"


def rand_bytes(r, n):
    return bytes(r.getrandbits(8) for _ in range(n))


def spec_frame(d):
    """('ok', flen) | ('incomplete',) | ('notvalid',) and whether the CRC comparison was reached"""
    if len(d) < 6:
        return ("incomplete",), False
    if d[0] != 0xD3:
        return ("notvalid",), False
    L = ((d[1] & 3) << 8) | d[2]
    if len(d) < L + 6:
        return ("incomplete",), False
    c = crc24q(d[:L + 3])
    m = (d[L + 3] << 16) | (d[L + 4] << 8) | d[L + 5]
    return (("ok", L + 6) if c == m else ("notvalid",)), True


def payload_for(r, L, number=None):
    p = bytearray(rand_bytes(r, L))
    if number is not None and L >= 2:
        p[0] = number >> 4
        p[1] = ((number & 15) << 4) | (p[1] & 15)
    return bytes(p)


SUPPORTED = [1001, 1002, 1003, 1004, 1005, 1006, 1007, 1008, 1009, 1010, 1011, 1012, 1013, 1014, 1015, 1016,
             1017, 1019, 1020, 1021, 1022, 1023, 1024, 1025, 1026, 1027, 1029, 1030, 1031, 1032, 1033, 1034,
             1035, 1037, 1038, 1039, 1041, 1042, 1044, 1045, 1046, 1057, 1058, 1059, 1060, 1061, 1062, 1063,
             1064, 1065, 1066, 1067, 1068, 1071, 1072, 1073, 1074, 1075, 1076, 1077, 1081, 1082, 1083, 1084,
             1085, 1086, 1087, 1091, 1092, 1093, 1094, 1095, 1096, 1097, 1101, 1102, 1103, 1104, 1105, 1106,
             1107, 1111, 1112, 1113, 1114, 1115, 1116, 1117, 1121, 1122, 1123, 1124, 1125, 1126, 1127, 1131,
             1132, 1133, 1134, 1135, 1136, 1137, 1230, 1300, 1301, 1302, 1303, 1304]


def stream_mix(r, nframes, maxlen=60):
    """A byte stream mixing valid frames, garbage, stray 0xD3, corrupted and truncated frames, headers
    announcing long bodies, frames nested in payloads. Returns (bytes, number of distinct candidate fates)."""
    out = bytearray()
    kinds = set()
    for _ in range(nframes):
        k = r.randrange(10)
        L = r.choice([0, 1, 2, 3, 7, r.randrange(0, maxlen)])
        f = mk_frame(payload_for(r, L, r.choice(SUPPORTED)), r.choice([0, 0, 0, r.randrange(64)]))
        if k <= 3:
            out += f; kinds.add("valid")
        elif k == 4:
            out += rand_bytes(r, r.randrange(1, 9)); kinds.add("garbage")
        elif k == 5:
            out += bytes([0xD3]) + bytes([r.choice([0, 0, 1, 2, 3]), r.randrange(256)]); kinds.add("stray")
        elif k == 6:
            g = bytearray(f); i = r.randrange(len(g) * 8); g[i // 8] ^= 0x80 >> (i % 8)
            out += g; kinds.add("corrupt")
        elif k == 7:
            out += f[:r.randrange(1, len(f))]; kinds.add("truncated")
        elif k == 8:
            inner = mk_frame(payload_for(r, r.randrange(0, 6)))
            out += mk_frame(inner + rand_bytes(r, r.randrange(0, 4))); kinds.add("nested")
        else:
            out += bytes([0xD3, 0x03, 0xFF]) + rand_bytes(r, r.randrange(0, 5)); kinds.add("long-header")
    return bytes(out), len(kinds)


def stray_cases(r):
    """short stray candidates directly in front of valid frames, with enough data behind them that the
    stray candidate becomes complete (and is rejected by its checksum) instead of pending"""
    out = []
    for stray in (b"\xd3", b"\xd3\x00", b"\xd3\xd3", b"\xd3\x01", b"\xd3\x03", b"\xd3\x00\x05", b"\xd3\x03\xff",
                  b"\xd3\x00\xd3", b"\x00\xd3", b"\xd3\xd3\xd3"):
        f1 = mk_frame(payload_for(r, r.choice([0, 2, 19, 40]), r.choice(SUPPORTED)))
        tail = b""
        while len(tail) < r.choice([0, 230, 800, 1100]):
            tail += mk_frame(payload_for(r, r.choice([100, 233, 700]), r.choice(SUPPORTED)))
        out.append(stray + f1 + tail)
        out.append(stray + f1 + rand_bytes(r, r.choice([0, 250, 1100])).replace(b"\xd3", b"\x00"))
    return out


def huge_cases(r):
    """slices longer than 64 KiB / 128 KiB whose length modulo 2^16 is small"""
    out = []
    for L in (0, 3, 200, 1023):
        f = mk_frame(payload_for(r, L, r.choice(SUPPORTED)))
        for total in (65535, 65536, 65536 + L + 5, 65536 + L + 6, 65541, 131072 + 2):
            if total > len(f):
                out.append(f + bytes(total - len(f)))
    return out


# ---------------------------------------------------------------------------- source dictionary
import json as _json, os as _os, re as _re

_DICT_CACHE = {}


def source_dictionary(repo="/repo"):
    """Numbers that occur as literals in the crate's sources (and their neighbours): the classic fuzzing
    dictionary. A condition such as `== 5242884`, `> 0x7ff` or `len() == 16` written into the code puts its
    trigger value into this set on the next run, because checks re-read the working tree."""
    key = repo
    if key in _DICT_CACHE:
        return _DICT_CACHE[key]
    vals = set()
    fvals = set()
    lit = _re.compile(r"(?<![\w.])(0x[0-9a-fA-F_]+|0b[01_]+|0o[0-7_]+|\d[\d_]*\.\d[\d_]*(?:[eE][-+]?\d+)?|\d[\d_]*[eE][-+]?\d+|\d[\d_]*)(?:_?(?:u|i)(?:8|16|32|64|128|size)|_?f(?:32|64))?")
    chlit = _re.compile(r"'(\\x[0-9a-fA-F]{2}|\\u\{[0-9a-fA-F]+\}|\\.|[^'\\])'")
    for dp, dn, fn in _os.walk(_os.path.join(repo, "src")):
        for f in fn:
            if not f.endswith(".rs"):
                continue
            try:
                src = open(_os.path.join(dp, f), errors="replace").read()
            except OSError:
                continue
            src = _re.sub(r"//.*", "", src)
            for m in lit.finditer(src):
                t = m.group(1).replace("_", "")
                try:
                    if t.startswith("0x"):
                        vals.add(int(t, 16))
                    elif t.startswith("0b"):
                        vals.add(int(t, 2))
                    elif t.startswith("0o"):
                        vals.add(int(t, 8))
                    elif "." in t or "e" in t.lower():
                        fvals.add(float(t))
                    else:
                        vals.add(int(t))
                except ValueError:
                    pass
            for m in chlit.finditer(src):
                c = m.group(1)
                if len(c) == 1:
                    vals.add(ord(c))
                elif c.startswith("\\x"):
                    vals.add(int(c[2:], 16))
                elif c.startswith("\\u"):
                    vals.add(int(c[3:-1], 16))
    vals = {v for v in vals if v < 2 ** 64}
    ext = set()
    for v in vals:
        ext.update((v - 1, v, v + 1))
    ext = sorted(x for x in ext if 0 <= x < 2 ** 64)
    d = {"ints": ext, "floats": sorted(fvals), "raw_ints": sorted(vals)}
    # literals that are not in the recorded literal set of the unchanged tree: tried first and in every role
    base_path = _os.path.join(_os.path.dirname(_os.path.abspath(__file__)), "baseline_literals.json")
    new_i, new_f = [], []
    if _os.path.exists(base_path):
        base = _json.load(open(base_path))
        bi, bf = set(base.get("raw_ints", [])), set(base.get("floats", []))
        for v in sorted(vals - bi):
            new_i += [x for x in (v - 1, v, v + 1) if 0 <= x < 2 ** 64]
        new_f = sorted(fvals - bf)
    d["new_ints"] = sorted(set(new_i))
    d["new_floats"] = new_f
    _DICT_CACHE[key] = d
    return d


def new_ints(lo, hi, repo="/repo"):
    return [v for v in source_dictionary(repo)["new_ints"] if lo <= v <= hi]


def dict_ints(lo, hi, repo="/repo", limit=None, rng=None):
    xs = [v for v in source_dictionary(repo)["ints"] if lo <= v <= hi]
    if limit is not None and len(xs) > limit and rng is not None:
        xs = sorted(rng.sample(xs, limit))
    return xs


def alias_chars(a):
    """code points that coincide with the attribute letter `a` after a truncation, a mask or a case fold:
    an unrecognised descriptor that a lossy comparison would take for a recognised one"""
    out = []
    for v in [a + 0x200, a + 0x4E00, a + 0xFF00, a + 0x10FF00, a ^ 0x20, a + 0x80, a + 0xF0000, a + 0x1FF00] + \
            [a | (1 << k) for k in range(7, 21)]:
        if 0 <= v < 0x110000 and not (0xD800 <= v <= 0xDFFF) and v != a:
            out.append(v)
    return sorted(set(out))


def mutate_frame(r, fr):
    """variants of a valid frame with the checksum recomputed: a flipped bit, a changed byte, a truncated or
    extended body, a changed bit right after the header fields"""
    p = bytearray(fr[3:-3])
    out = []
    if len(p) > 2:
        q = bytearray(p); i = r.randrange(12, len(q) * 8); q[i // 8] ^= 0x80 >> (i % 8); out.append(bytes(q))
        q = bytearray(p); q[r.randrange(2, len(q))] = r.choice([0, 255, 0x80, r.getrandbits(8)]); out.append(bytes(q))
        out.append(bytes(p[:r.randrange(2, len(p))]))
        out.append(bytes(p[:-1]))
        out.append(bytes(p) + rand_bytes(r, r.choice([1, 2, 9])))
    return [mk_frame(x[:1023]) for x in out]


def frame_with_crc(r, L, target, number=None, resv=0):
    """a valid frame with an L-byte payload (L >= 3) whose CRC-24Q equals `target`: the last three payload
    bytes are solved for (the checksum is an affine bijection of them for a fixed prefix)"""
    assert 3 <= L <= 1023
    p = bytearray(payload_for(r, L, number))
    hdr = bytes([0xD3, ((resv & 63) << 2) | (L >> 8), L & 0xFF])

    def c(x):
        p[L - 3:L] = bytes([(x >> 16) & 255, (x >> 8) & 255, x & 255])
        return crc24q(hdr + bytes(p))

    c0 = c(0)
    cols = [c(1 << i) ^ c0 for i in range(24)]          # linear part, column i
    # solve sum x_i cols[i] = target ^ c0 over GF(2)
    rows = [(cols[i], 1 << i) for i in range(24)]
    want, x = target ^ c0, 0
    basis = []
    for v, m in rows:
        for bv, bm in basis:
            if v ^ bv < v:
                v ^= bv; m ^= bm
        if v:
            basis.append((v, m))
            basis.sort(reverse=True)
    for bv, bm in basis:
        if want ^ bv < want:
            want ^= bv; x ^= bm
    assert want == 0
    c(x)
    f = mk_frame(bytes(p), resv)
    assert (f[-3] << 16 | f[-2] << 8 | f[-1]) == target
    return f


def special_crcs(repo="/repo"):
    """checksum values at which comparisons written with sentinels, narrowing casts, modulo or partial
    (byte-wise, early) tests go wrong; literals of the sources that fit 24 bits are included"""
    base = [0x000000, 0xFFFFFF, 0x000001, 0x800000, 0x7FFFFF, 0xFFFFFE, 0x0000FF, 0x00FFFF, 0xFFFF00, 0xFF0000,
            0x00FF00, 0xFF00FF, 0x010000, 0x000100, 0x00FFFE, 0x00FFFD, 0xFEFFFF, 0x01FFFF, 0xD30000, 0x00D300, 0x0000D3, 0xD3D3D3,
            0xD30000 | 0x0000, 0xD30001, 0x864CFB, 0x123456, 0xAB00CD, 0x00ABCD, 0xABCD00, 0xABFFFF, 0xFFABFF, 0xFFFFAB]
    d = source_dictionary(repo)
    new = [v for v in d.get("new_ints", []) if v < (1 << 24)]
    return list(dict.fromkeys(new + base))


def big_cases(r):
    """(total, frame bytes): valid frames at the head of slices of 2^31 .. 2^33 bytes (zero filled), with totals
    whose value modulo 2^31 / 2^32 is smaller than the frame: lengths that do not survive a cast to a 32-bit type"""
    out = []
    for L in (0, 19, 1023):
        f = mk_frame(payload_for(r, L, r.choice(SUPPORTED)))
        for base in (1 << 31, 1 << 32, 1 << 33):
            for d in (0, 3, len(f) - 1, len(f), len(f) + 1):
                out.append((base + d, f))
        out.append(((1 << 32) - 1, f))
        out.append(((1 << 24) + 2, f))
    return out


def preamble_floods(r):
    """buffers in which one scanner call steps over 10^5 complete candidates that fail their checksum before
    it reaches a valid frame (or the end): depth of recursion / work per call, not content"""
    f = mk_frame(payload_for(r, 19, r.choice(SUPPORTED)))
    out = []
    for unit, n in ((b"\xd3\x00\x00", 150000), (b"\xd3\x00\x01\x55", 100000), (b"\xd3\x00\x00\xd3\x00\x02\x00", 60000)):
        out.append(unit * n + f)
        out.append(unit * n)
    return out


def overlap_cases(r):
    """three candidates sharing bytes: a complete candidate A that fails its checksum, a valid frame B that starts
    inside A's announced extent, and a valid frame C nested in B's payload that starts exactly where A's
    announced extent ends (and neighbours of that arrangement: C one byte earlier / later, A valid, B damaged)"""
    out = []
    for LA in (0, 1, 2, 5, 9):
        for gap in (0, 1, 2):
            if gap > LA:
                continue
            j = LA - gap                      # offset of C inside B's payload
            for dj in (0, 1, -1):
                jj = j + dj
                if jj < 0:
                    continue
                C = mk_frame(payload_for(r, r.choice([0, 2, 7]), r.choice(SUPPORTED)))
                pay = rand_bytes(r, jj).replace(b"\xd3", b"\x11") + C + rand_bytes(r, r.choice([0, 3])).replace(b"\xd3", b"\x12")
                B = mk_frame(pay)
                A = bytes([0xD3, 0x00, LA])
                g = rand_bytes(r, gap).replace(b"\xd3", b"\x13")
                out.append(A + g + B)
                out.append(A + g + B + mk_frame(payload_for(r, 3, 1005)))
                bad = bytearray(B); bad[-1] ^= 0x40
                out.append(A + g + bytes(bad))
                out.append(b"\x00" + A + g + B)
    return out


def rejected_then_short(r):
    """a complete candidate with a declared length >= 2 that fails its checksum, directly (or after dead bytes)
    followed by a valid frame with a 0-, 1- or 2-byte payload: state left over from the rejected candidate"""
    out = []
    for LA in (2, 3, 9, 40):
        bad = bytearray(mk_frame(payload_for(r, LA, r.choice(SUPPORTED))))
        bad[-1] ^= 0x01
        for L in (0, 1, 2):
            f = mk_frame(payload_for(r, L, r.choice(SUPPORTED)))
            for gap in (b"", b"\x00\x11"):
                out.append(bytes(bad) + gap + f)
                out.append(bytes(bad) + gap + f + rand_bytes(r, 5).replace(b"\xd3", b"\x21"))
                out.append(b"\x7f" + bytes(bad) + gap + f + f)
    return out


def preamble_neighbours(r):
    """bytes one bit (or one unit) away from the preamble value directly before / after a 0xD3 near the END of the
    buffer, at every alignment (word-at-a-time searches have false positives next to the searched byte; a candidate in
    the last 5 bytes is pending, not rejected)"""
    out = []
    for nb in (0xD2, 0xD4, 0x53, 0xD1, 0xF3, 0x93):
        for align in range(0, 17):
            for tail in range(0, 5):
                fill = bytes(r.choice([0x00, 0x11, 0xFF, 0x7E]) for _ in range(align))
                out.append(fill + bytes([nb, 0xD3]) + rand_bytes(r, tail).replace(b"\xd3", b"\x01"))
                if align % 4 == 0:
                    out.append(fill + bytes([nb, nb, 0xD3, nb]) + rand_bytes(r, tail).replace(b"\xd3", b"\x01"))
    return out


def nul_descriptor_frames(r):
    """CRC-valid 1007 / 1008 / 1033 frames whose descriptor strings contain NUL bytes (no value built through the
    public API holds one; a decoder may store it raw)"""
    def bits(v, n):
        return [(v >> (n - 1 - i)) & 1 for i in range(n)]
    def pack(b):
        while len(b) % 8:
            b.append(0)
        return bytes(int("".join(map(str, b[i:i + 8])), 2) for i in range(0, len(b), 8))
    out = []
    for n in (1, 2, 7, 8, 9, 16, 31):
        for where in ("first", "last", "middle", "all"):
            body = bytearray(r.choice(b"ABCDEFGHXYZ0123456789") for _ in range(n))
            idx = {"first": [0], "last": [n - 1], "middle": [n // 2], "all": list(range(n))}[where]
            for i in idx:
                body[i] = 0
            for num in (1007, 1008, 1033):
                b = bits(num, 12) + bits(r.randrange(4096), 12) + bits(n, 8)
                for ch in body:
                    b += bits(ch, 8)
                b += bits(r.randrange(256), 8)                      # setup id
                if num != 1007:
                    b += bits(3, 8) + bits(0x53, 8) + bits(0x4E, 8) + bits(0x31, 8)       # a serial number
                if num == 1033:
                    for _ in range(3):
                        b += bits(2, 8) + bits(0x52, 8) + bits(0x58, 8)
                out.append(mk_frame(pack(b)))
    return out
