#!/usr/bin/env python3
"""store a confirmed seeded change: add_seed.py ID "what" "needs" CHECK[,CHECK..] [origin]"""
import json, os, shutil, sys, glob
ID, what, needs, checks = sys.argv[1:5]
origin = sys.argv[5] if len(sys.argv) > 5 else "fresh sub-agent given the property text and a scratch worktree"
src = f"/tmp/mut/{ID}.out"
dst = os.path.join(os.path.dirname(os.path.dirname(os.path.abspath(__file__))), "seeded", ID)
os.makedirs(dst, exist_ok=True)
for f in ["patch.diff", "notes.md"] + [os.path.basename(x) for x in glob.glob(src + "/demo_*.rs")]:
    if os.path.exists(os.path.join(src, f)):
        shutil.copy(os.path.join(src, f), os.path.join(dst, f))
json.dump({"id": ID, "property": ID.split("-")[0], "what": what, "needs_to_manifest": needs,
           "run_checks": checks.split(","), "confirmed": "tools/confirm_seed.sh in a scratch worktree", "origin": origin},
          open(os.path.join(dst, "meta.json"), "w"), indent=1)
print("stored", dst)
