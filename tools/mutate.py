#!/usr/bin/env python3
"""Mechanical mutation sweep (a measurement of the checks, not a check): small syntactic changes to the
hand-written code of /repo/src are applied one at a time to a private copy of the repository; a mutant that
still compiles and still passes the repository's own test suite is then given to the quick checks of the
properties its file is relevant to (private copy of /verif, as in par_seeded.py).

  python3 tools/mutate.py --n 160 --workers 8 [--seed 1] [--files message_frame.rs,lib.rs]

Output: work/mutants/<k>.json per mutant and work/mutants/summary.json:
  killed-by-compiler / killed-by-tests / caught (by which checks) / survived (no relevant check reported it).
Survivors need a human: an equivalent mutant, a change outside every property, or a blind spot.
"""
import argparse, json, os, random, re, shutil, subprocess, sys, time
from concurrent.futures import ThreadPoolExecutor

ROOT = os.path.dirname(os.path.dirname(os.path.abspath(__file__)))
sys.path.insert(0, os.path.join(ROOT, "tools"))
from par_seeded import prepare, sh

RELEVANT = {
    "src/message_frame.rs": ["C03", "C04", "C05", "C06", "C13", "C14"],
    "src/lib.rs": ["C05", "C06", "C02"],
    "src/df/assembler.rs": ["C07", "C01", "C09", "C12"],
    "src/df/parser.rs": ["C07", "C02", "C01", "C15"],
    "src/df/bit_value.rs": ["C07", "C08", "C01", "C09"],
    "src/df/mod.rs": ["C08", "C11", "C01", "C15", "C17", "C02", "C09"],
    "src/msg/mod.rs": ["C01", "C02", "C09", "C10", "C15"],
    "src/msg/message.rs": ["C12", "C14", "C09", "C01"],
    "src/msg/msm_mappings.rs": ["C18", "C10"],
    "src/util/mod.rs": ["C17", "C20", "C01"],
    "src/util/array_string.rs": ["C17", "C20", "C02"],
    "src/util/data_vec.rs": ["C20", "C15", "C02"],
    "src/util/grid16p.rs": ["C20", "C01"],
    "src/df/dfs/df_msg1059_biases.rs": ["C16", "C01", "C02", "C09", "C08", "C11"],
    "src/df/dfs/df_msg1065_biases.rs": ["C16", "C01", "C02", "C09", "C08", "C11"],
    "src/df/dfs/df_msg1230_biases.rs": ["C16", "C01", "C02", "C09", "C08", "C11"],
    "src/df/dfs/df_msg1029_utf8_str.rs": ["C17", "C02", "C01", "C13"],
}

OPS = [
    (r"<=", ["<"]), (r">=", [">"]), (r"(?<= )<(?= )", ["<="]), (r"(?<= )>(?= )", [">="]),
    (r"==", ["!="]), (r"!=", ["=="]), (r"&&", ["||"]), (r"\|\|", ["&&"]),
    (r"<<", [">>"]), (r">>", ["<<"]), (r"(?<![+\w])\+(?![+=])", ["-"]), (r"(?<![-\w(,=<>] )-(?![-=>\d])", ["+"]),
    (r"\*(?![=/])", ["/"]), (r"/(?![/*=])", ["*"]),
    (r"\b(\d+)\b", ["+1", "-1"]), (r"\b0x([0-9a-fA-F_]+)\b", ["hex+1", "hex>>1"]),
    (r"\breturn Err\(", ["//return Err("]), (r"\bcontinue;", ["break;"]), (r"\bbreak;", ["continue;"]),
    (r"\btrue\b", ["false"]), (r"\bfalse\b", ["true"]), (r"\.is_some\(\)", [".is_none()"]), (r"\.is_err\(\)", [".is_ok()"]),
    (r"\bas u8\b", ["as u16 as u8 & 0x7f"]), (r"& ", ["| "]), (r"\| ", ["& "]),
]


def code_lines(path):
    """(index, line) of lines that are hand-written logic: not comments, attributes, use/mod lines, test modules,
    test_gen code, or macro *invocation* tables"""
    src = open(path).read().split("\n")
    out = []
    in_test = False
    skip_item = False      # inside an item that follows #[cfg(feature = "test_gen")]
    depth = 0
    opened = False
    in_block = False
    for i, l in enumerate(src):
        t = l.strip()
        if in_block:
            if "*/" in t:
                in_block = False
            continue
        if t.startswith("/*") and "*/" not in t:
            in_block = True
            continue
        if "write!(" in t or "write_str(" in t or "expecting" in t:
            continue            # Display / Debug / serde diagnostics: outside every property
        if re.match(r"#\[cfg\(test\)\]", t) or "mod test" in t:
            in_test = True
        if in_test:
            continue
        if "test_gen" in t and t.startswith("#["):
            skip_item, depth, opened = True, 0, False
            continue
        if skip_item:
            depth += l.count("{") - l.count("}")
            opened = opened or "{" in l
            if (opened and depth <= 0) or (not opened and t.endswith(";")):
                skip_item = False
            continue
        if not t or t.startswith("//") or t.startswith("#[") or t.startswith("use ") or t.startswith("pub use") or t.startswith("mod ") \
                or t.startswith("pub mod") or t.startswith("///") or t.startswith("//!"):
            continue
        if re.match(r"^\s*(df!|msg!|frag_vec|msg_len_middle!|include_msg!|message!|msm_|sig_mappings!|\"msg\d+)", l) and "macro_rules" not in l:
            continue
        out.append((i, l))
    return src, out


def mutants(repo, files, rng, n):
    cands = []
    for f in files:
        p = os.path.join(repo, f)
        if not os.path.exists(p):
            continue
        src, lines = code_lines(p)
        for i, l in lines:
            code = l.split("//")[0]
            for k, (pat, reps) in enumerate(OPS):
                for m in re.finditer(pat, code):
                    for rep in reps:
                        if rep in ("+1", "-1"):
                            v = int(m.group(1))
                            if v > 4096:
                                continue
                            new = str(v + 1 if rep == "+1" else max(0, v - 1))
                            if new == m.group(0):
                                continue
                        elif rep.startswith("hex"):
                            v = int(m.group(1).replace("_", ""), 16)
                            new = hex(v + 1) if rep == "hex+1" else hex(v >> 1)
                        else:
                            new = rep
                        nl = code[:m.start()] + new + code[m.end():] + l[len(code):]
                        cands.append({"file": f, "line": i + 1, "op": f"{pat} -> {rep}", "old": l, "new": nl})
    rng.shuffle(cands)
    # spread over files and lines: at most two mutants per line
    seen = {}
    out = []
    for c in cands:
        key = (c["file"], c["line"])
        if seen.get(key, 0) >= 2:
            continue
        seen[key] = seen.get(key, 0) + 1
        out.append(c)
        if len(out) >= n:
            break
    return out


def run_mutant(k, d, mut, tier, outdir):
    repo, verif = d + "/repo", d + "/verif"
    p = os.path.join(repo, mut["file"])
    orig = open(p).read()
    lines = orig.split("\n")
    assert lines[mut["line"] - 1] == mut["old"]
    lines[mut["line"] - 1] = mut["new"]
    open(p, "w").write("\n".join(lines))
    res = dict(mut, id=k)
    env = dict(os.environ, CARGO_NET_OFFLINE="true")
    try:
        c = sh(["cargo", "build", "--offline", "--tests"], cwd=repo, env=env)
        if c.returncode != 0:
            res["fate"] = "killed-by-compiler"
            return res
        c = sh(["cargo", "test", "--offline", "--no-fail-fast"], cwd=repo, env=env, timeout=1800)
        if c.returncode != 0:
            res["fate"] = "killed-by-tests"
            return res
        venv = dict(env, VERIF_REPO=repo, VERIF_EVIDENCE_DIR=d + "/evidence")
        caught = {}
        for prop in RELEVANT[mut["file"]]:
            c = sh([sys.executable, os.path.join(verif, "tools", "check.py"), "--property", prop, "--tier", tier], cwd=verif, env=venv)
            v = [l for l in c.stdout.split("\n") if l.startswith("VIOLATION")]
            if c.returncode == 1:
                caught[prop] = "nfi" if any("no-failing-input-found" in l for l in v) else "input"
                if caught[prop] == "input":
                    break
            elif c.returncode != 0:
                caught[prop] = "check-crashed: " + c.stdout[-300:]
        res["checks"] = caught
        res["fate"] = "caught" if any(v in ("input", "nfi") for v in caught.values()) else "survived"
        return res
    except subprocess.TimeoutExpired:
        res["fate"] = "killed-by-tests"        # a hang in the suite
        return res
    finally:
        open(p, "w").write(orig)
        json.dump(res, open(os.path.join(outdir, f"{k}.json"), "w"), indent=1)
        print(f"[{k}] {mut['file']}:{mut['line']} {mut['op']}: {res.get('fate')} {res.get('checks', '')}", flush=True)


def main():
    ap = argparse.ArgumentParser()
    ap.add_argument("--n", type=int, default=120)
    ap.add_argument("--workers", type=int, default=8)
    ap.add_argument("--seed", type=int, default=1)
    ap.add_argument("--files")
    ap.add_argument("--tier", default="quick")
    args = ap.parse_args()
    files = [f for f in RELEVANT if not args.files or any(f.endswith(x) for x in args.files.split(","))]
    rng = random.Random(args.seed)
    muts = mutants("/repo", files, rng, args.n)
    outdir = os.path.join(ROOT, "work", "mutants-%d" % args.seed)
    shutil.rmtree(outdir, ignore_errors=True)
    os.makedirs(outdir)
    n = max(1, min(args.workers, len(muts)))
    shares = [list(enumerate(muts))[i::n] for i in range(n)]

    def worker(w):
        d = prepare("m%d" % w)
        out = []
        for k, m in shares[w]:
            out.append(run_mutant(k, d, m, args.tier, outdir))
        shutil.rmtree(d, ignore_errors=True)
        return out

    allres = []
    with ThreadPoolExecutor(max_workers=n) as ex:
        for r in ex.map(worker, range(n)):
            allres += r
    fates = {}
    for r in allres:
        fates[r["fate"]] = fates.get(r["fate"], 0) + 1
    summ = {"seed": args.seed, "mutants": len(allres), "fates": fates,
            "survivors": [{k: r[k] for k in ("id", "file", "line", "op", "old", "new", "checks")} for r in allres if r["fate"] == "survived"]}
    json.dump(summ, open(os.path.join(outdir, "summary.json"), "w"), indent=1)
    print(json.dumps(summ, indent=1))


if __name__ == "__main__":
    main()
